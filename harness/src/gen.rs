//! Workload generators (model-driven; never consult the library).

use crate::api::*;
use crate::base::*;
use crate::model::Model;
use std::collections::HashSet;

#[derive(Clone, Copy, Debug, PartialEq, Eq)]
pub enum Phase {
    Grow,
    Churn,
    Decanon,
    Shrink,
}

pub struct Gen {
    pub w: u8,
    pub keeps_host: bool,
    pub uni: Vec<EP>,
    pub uni_keys: HashSet<Key>,
    pub rng: Rng,
    pub ticket: u64,
    pub phase: Phase,
    pub phase_left: usize,
    /// restrict to insert / entry-insert / remove / retain / clear / collect
    pub canonical_only: bool,
    pub is_set: bool,
    pub max_keys: usize,
    /// emphasise these op families (per-property tuning)
    pub bias_mut: bool,
    pub bias_view: bool,
    pub bias_bulk: bool,
    pub bias_entry: bool,
    pub allow_inject: bool,
    pub serde_ok: bool,
    /// keys of other maps (so that operands of set operations share keys)
    pub extra_keys: Vec<EP>,
    /// pending keys of a "chain burst": every ancestor of one full-length key (a path with a node
    /// at every length 0..=W)
    pub burst: Vec<EP>,
    /// wide types: the full-depth path of the universe (empty: none), see `base::spine`
    pub spine: Vec<EP>,
    /// now and then replace the contents by a large part of the universe (size-dependent behaviour:
    /// arena growth, index arithmetic, anything with a threshold on the number of entries / nodes)
    pub flood: bool,
    /// steps until the big bulk operation that follows a flood (0: none pending)
    pub after_flood: usize,
}

impl Gen {
    pub fn new(w: u8, keeps_host: bool, uni: Vec<EP>, rng: Rng, is_set: bool) -> Self {
        let uni_keys = uni.iter().map(|e| e.key()).collect();
        Gen {
            w,
            keeps_host,
            uni,
            uni_keys,
            rng,
            ticket: 1,
            phase: Phase::Grow,
            phase_left: 40,
            canonical_only: false,
            is_set,
            max_keys: 40,
            bias_mut: false,
            bias_view: false,
            bias_bulk: false,
            bias_entry: false,
            allow_inject: false,
            serde_ok: false,
            extra_keys: Vec::new(),
            burst: Vec::new(),
            spine: Vec::new(),
            flood: false,
            after_flood: 0,
        }
    }

    pub fn t(&mut self) -> u64 {
        self.ticket += 1;
        self.ticket
    }
    /// reserve a block of n tickets, return the base
    pub fn tn(&mut self, n: usize) -> u64 {
        let b = self.ticket + 1;
        self.ticket += n as u64 + 1;
        b
    }

    pub fn host(&mut self, e: EP) -> EP {
        if self.keeps_host {
            with_host(e, self.w, &mut self.rng)
        } else {
            e.canon()
        }
    }

    fn in_uni(&self, e: EP) -> Option<EP> {
        if e.len <= self.w && self.uni_keys.contains(&e.key()) {
            Some(e.canon())
        } else {
            None
        }
    }

    pub fn random_uni(&mut self) -> EP {
        let i = self.rng.below(self.uni.len());
        self.uni[i]
    }

    pub fn resident(&mut self, m: &Model) -> Option<EP> {
        if m.m.is_empty() {
            return None;
        }
        let i = self.rng.below(m.m.len());
        m.m.keys().nth(i).map(|k| EP::new(k.0, k.1))
    }

    /// a key biased towards relatives of resident keys (network form)
    pub fn key(&mut self, m: &Model) -> EP {
        if !self.extra_keys.is_empty() && self.rng.chance(1, 4) {
            let i = self.rng.below(self.extra_keys.len());
            return self.extra_keys[i].canon();
        }
        let r = self.rng.below(100);
        let res = self.resident(m);
        let cand: Option<EP> = match (r, res) {
            (0..=34, Some(k)) => Some(k),
            (35..=39, Some(k)) if k.len > 0 => Some(EP::new(k.bits, k.len - 1)),
            (40..=43, Some(k)) if k.len < self.w => {
                let b = (self.rng.next() & 1) as u128;
                Some(EP::new(k.bits | (b << (127 - k.len as u32)), k.len + 1))
            }
            (44..=46, Some(k)) if k.len > 0 => Some(EP::new(k.bits ^ (1u128 << (128 - k.len as u32)), k.len)),
            (47..=50, Some(k)) => {
                // lcp with another resident key
                let o = self.resident(m).unwrap();
                let l = lcp(k.key(), o.key());
                Some(EP::new(l.0, l.1))
            }
            (51..=55, Some(k)) if k.len > 1 => {
                // strictly on the edge above k: any shorter length
                let l = 1 + self.rng.below(k.len as usize - 1) as u8;
                Some(EP::new(k.bits, l))
            }
            (56..=58, _) => Some(EP::new(0, 0)),
            (59..=62, _) => {
                let x = self.random_uni();
                Some(EP::new(x.bits | (self.rng.u128() & mask(self.w)), self.w))
            }
            _ => None,
        };
        match cand.and_then(|e| self.in_uni(e.canon())) {
            Some(e) => e,
            None => self.random_uni(),
        }
    }

    /// key with host bits
    pub fn hkey(&mut self, m: &Model) -> EP {
        let k = self.key(m);
        self.host(k)
    }

    /// an absent key (for inserts in grow phase)
    pub fn absent_key(&mut self, m: &Model) -> EP {
        for _ in 0..8 {
            let k = self.key(m);
            if !m.contains(k) {
                return k;
            }
        }
        self.random_uni()
    }

    pub fn pred(&mut self, m: &Model) -> Pred {
        match self.rng.below(10) {
            0 => Pred::All,
            1 => Pred::None,
            2 => Pred::ValueParity(self.rng.next()),
            3 => Pred::LenAtMost(self.rng.below(self.w as usize + 1) as u8),
            4 => Pred::LenOdd,
            5 => Pred::Under(self.key(m)),
            6 => Pred::NotUnder(self.key(m)),
            7 => Pred::HostZero,
            _ => Pred::Table(self.rng.next()),
        }
    }

    pub fn pattern(&mut self) -> WritePattern {
        match self.rng.below(5) {
            0 | 1 => WritePattern::CollectThenWrite,
            2 | 3 => WritePattern::WriteHoldContinue,
            _ => WritePattern::ReadOnly,
        }
    }

    pub fn nav(&mut self, m: &Model, n: usize) -> Vec<Nav> {
        let mut v = Vec::new();
        for _ in 0..n {
            let k = self.hkey(m);
            v.push(match self.rng.below(10) {
                0 | 1 => Nav::Find(k),
                2 => Nav::FindExact(k),
                3 => Nav::FindLpm(k),
                4 => Nav::ViewAt(k),
                5 | 6 => Nav::Left,
                7 | 8 => Nav::Right,
                _ => {
                    if self.rng.chance(1, 2) {
                        Nav::SplitL
                    } else {
                        Nav::SplitR
                    }
                }
            });
        }
        v
    }

    pub fn view_prog(&mut self, m: &Model) -> ViewProg {
        let root = if self.rng.chance(1, 3) { None } else { Some(self.hkey(m)) };
        let n = match self.rng.below(6) {
            0 | 1 => 0,
            2 | 3 => 1,
            4 => 2,
            _ => 3,
        };
        ViewProg { root, nav: self.nav(m, n) }
    }

    fn vact(&mut self, m: &Model) -> VAct {
        let pat = self.pattern();
        let n = m.len() + 2;
        match self.rng.below(if self.canonical_only { 6 } else { 10 }) {
            0 => VAct::ValueMutWrite(self.t()),
            1 => VAct::PrefixValueMutWrite(self.t()),
            2 => VAct::IterMutWrite(self.tn(2 * n), pat),
            3 => VAct::ValuesMutWrite(self.tn(2 * n), pat),
            4 => VAct::IntoIterWrite(self.tn(2 * n), pat),
            5 => VAct::ReborrowThenWrite(self.t()),
            6 | 7 => VAct::Set(self.t()),
            _ => VAct::Remove,
        }
    }

    fn entry_acts(&mut self) -> Vec<EAct> {
        let mut acts = Vec::new();
        let pre = self.rng.below(3);
        for _ in 0..pre {
            acts.push(match self.rng.below(if self.allow_inject { 5 } else { 4 }) {
                0 => EAct::Get,
                1 => EAct::Key,
                2 => EAct::GetMutWrite(self.t()),
                3 => EAct::AndModify(self.t()),
                _ => EAct::AndModifyPanic,
            });
        }
        let w = if self.rng.chance(1, 2) { Some(self.t()) } else { None };
        let inj = self.allow_inject && self.rng.chance(1, 4);
        match self.rng.below(6) {
            0 => acts.push(EAct::Insert(self.t())),
            1 => acts.push(EAct::OrInsert(self.t(), w)),
            2 => acts.push(EAct::OrInsertWith(self.t(), inj, w)),
            3 => acts.push(EAct::OrDefault(w)),
            4 => {}
            _ => {
                acts.push(EAct::Match);
                let post = 1 + self.rng.below(3);
                for _ in 0..post {
                    // both variants' actions are listed; the non-applicable ones are skipped
                    let no_remove = self.canonical_only;
                    acts.push(match self.rng.below(10) {
                        0 => EAct::VKey,
                        1 => EAct::OKey,
                        2 => EAct::OGet,
                        3 => EAct::OGetMutWrite(self.t()),
                        4 => EAct::VInsert(self.t(), w),
                        5 => EAct::VInsertWith(self.t(), inj, w),
                        6 => EAct::VDefault(w),
                        7 => EAct::OInsert(self.t()),
                        8 if !no_remove => EAct::ORemove,
                        _ => EAct::OGet,
                    });
                }
            }
        }
        acts
    }

    fn advance_phase(&mut self, m: &Model) {
        if self.phase_left > 0 {
            self.phase_left -= 1;
            if !(self.phase == Phase::Grow && m.len() >= self.max_keys) && !(self.phase == Phase::Shrink && m.len() == 0) {
                return;
            }
        }
        self.phase = match self.phase {
            Phase::Grow => {
                if self.rng.chance(1, 2) {
                    Phase::Churn
                } else {
                    Phase::Decanon
                }
            }
            Phase::Churn => *self.rng.pick(&[Phase::Decanon, Phase::Shrink, Phase::Grow]),
            Phase::Decanon => *self.rng.pick(&[Phase::Shrink, Phase::Churn, Phase::Grow]),
            Phase::Shrink => Phase::Grow,
        };
        self.phase_left = 10 + self.rng.below(50);
    }

    /// next operation of a random-hostile history
    pub fn op(&mut self, m: &Model) -> Op {
        // chain burst: only possible where the universe holds every length (the 8-bit type)
        if let Some(k) = self.burst.pop() {
            let k = self.host(k);
            return Op::Insert(k, self.t());
        }
        if self.w == 8 && self.uni.len() >= 511 && self.rng.chance(1, 400) {
            let leaf = EP::new(self.rng.u128() & mask(self.w), self.w);
            let mut chain: Vec<EP> = (0..=self.w).map(|l| EP::new(leaf.bits, l).canon()).collect();
            self.rng.shuffle(&mut chain);
            self.burst = chain;
        }
        if !self.spine.is_empty() && self.rng.chance(1, 70) {
            // a path with (almost) one node per length of a wide type
            let mut chain: Vec<EP> = self.spine.clone();
            if self.rng.chance(1, 2) {
                let keep = 2 + self.rng.below(3);
                chain = chain.into_iter().filter(|_| self.rng.below(4) < keep).collect();
            }
            chain.retain(|k| !m.contains(*k));
            self.rng.shuffle(&mut chain);
            self.burst = chain;
        }
        if self.after_flood > 0 {
            self.after_flood -= 1;
            if self.after_flood == 0 {
                // one bulk operation over (a large part of) the flooded trie
                let top = {
                    let l = self.rng.below(3) as u8;
                    let x = self.random_uni();
                    EP::new(x.bits, l.min(x.len)).canon()
                };
                let top = self.in_uni(top).unwrap_or(EP::new(0, 0));
                let top = self.host(top);
                return match self.rng.below(if self.is_set { 4 } else { 6 }) {
                    0 | 1 => Op::RemoveChildren(top),
                    2 => {
                        let p = self.pred(m);
                        Op::Retain(p, None)
                    }
                    3 => Op::Retain(Pred::Table(self.rng.next()), if self.allow_inject && self.rng.chance(1, 3) { Some(self.rng.below(m.len().max(1))) } else { None }),
                    4 => {
                        let t = self.tn(2 * (m.len() + 2));
                        Op::MutTravWrite(MutTrav::ChildrenMut, top, t, self.pattern())
                    }
                    _ => {
                        let t = self.tn(2 * (m.len() + 2));
                        Op::MutTravWrite(MutTrav::IterMut, EP::new(0, 0), t, self.pattern())
                    }
                };
            }
        }
        if self.flood && self.rng.chance(1, 90) {
            self.after_flood = 1 + self.rng.below(6);
            let keep = 2 + self.rng.below(4);
            let mut list: Vec<Item> = Vec::new();
            for k in self.uni.clone() {
                if self.rng.below(5) < keep {
                    let k = self.host(k);
                    let t = self.t();
                    list.push((k, t));
                }
            }
            self.rng.shuffle(&mut list);
            self.phase = Phase::Shrink;
            self.phase_left = 20 + self.rng.below(40);
            return Op::Replace(if self.rng.chance(1, 2) { ReplaceHow::FromList(list) } else { ReplaceHow::InsertList(list) });
        }
        self.advance_phase(m);
        // weights: [insert, entry, remove, keep_tree, remove_children, retain, clear, get_mut*, mut_trav, view_mut, replace]
        let mut w: [u32; 11] = match self.phase {
            Phase::Grow => [40, 20, 4, 2, 1, 1, 0, 6, 6, 8, 2],
            Phase::Churn => [20, 16, 16, 6, 3, 3, 1, 8, 8, 10, 3],
            Phase::Decanon => [8, 10, 6, 20, 8, 3, 0, 6, 6, 20, 2],
            Phase::Shrink => [3, 4, 40, 10, 6, 5, 1, 4, 4, 6, 1],
        };
        if self.bias_mut {
            w[7] *= 3;
            w[8] *= 4;
            w[9] *= 2;
        }
        if self.bias_view {
            w[9] *= 4;
        }
        if self.bias_bulk {
            w[4] *= 4;
            w[5] *= 5;
        }
        if self.bias_entry {
            w[1] *= 3;
        }
        if self.canonical_only {
            w[3] = 0;
            w[4] = 0;
        }
        if self.is_set {
            w[1] = 0;
            w[7] = 0;
            w[8] = 0;
        }
        if m.len() >= self.max_keys {
            w[0] /= 8;
            w[1] /= 4;
        }
        let tot: u32 = w.iter().sum();
        let mut r = (self.rng.next() % tot as u64) as u32;
        let mut which = 0;
        for (i, x) in w.iter().enumerate() {
            if r < *x {
                which = i;
                break;
            }
            r -= *x;
        }
        match which {
            0 => {
                let k = if self.phase == Phase::Grow && self.rng.chance(2, 3) { self.absent_key(m) } else { self.key(m) };
                Op::Insert(self.host(k), self.t())
            }
            1 => {
                let k = self.hkey(m);
                Op::Entry(k, self.entry_acts())
            }
            2 => Op::Remove(self.hkey(m)),
            3 => Op::RemoveKeepTree(self.hkey(m)),
            4 => Op::RemoveChildren(self.hkey(m)),
            5 => {
                let inj = if self.allow_inject && self.rng.chance(1, 3) { Some(self.rng.below(m.len() + 1)) } else { None };
                Op::Retain(self.pred(m), inj)
            }
            6 => Op::Clear,
            7 => {
                if self.rng.chance(1, 2) {
                    Op::GetMutWrite(self.hkey(m), self.t())
                } else {
                    Op::GetLpmMutWrite(self.hkey(m), self.t())
                }
            }
            8 => {
                let which = *self.rng.pick(&[MutTrav::IterMut, MutTrav::ValuesMut, MutTrav::ChildrenMut]);
                let sel = self.hkey(m);
                let pat = self.pattern();
                Op::MutTravWrite(which, sel, self.tn(2 * (m.len() + 2)), pat)
            }
            9 => {
                let prog = self.view_prog(m);
                let act = self.vact(m);
                Op::ViewMut(prog, act)
            }
            _ => Op::Replace(match self.rng.below(if self.serde_ok { 6 } else { 5 }) {
                0 => ReplaceHow::Clone,
                1 => ReplaceHow::IntoIterCollect,
                2 | 3 => ReplaceHow::CollectShuffled(self.rng.next()),
                4 => {
                    // collect from a list with repeated keys (other host bits, other values): the last one wins
                    let mut list: Vec<Item> = m.entries();
                    let extra = 8 + self.rng.below(40);
                    for _ in 0..extra {
                        let k = if !list.is_empty() && self.rng.chance(2, 3) { list[self.rng.below(list.len())].0.canon() } else { self.random_uni() };
                        let k = self.host(k);
                        let t = self.t();
                        list.push((k, t));
                    }
                    self.rng.shuffle(&mut list);
                    if m.len() + extra > self.max_keys + 40 {
                        list.truncate(self.max_keys + 40);
                    }
                    ReplaceHow::FromList(list)
                }
                _ => ReplaceHow::Serde,
            }),
        }
    }
}
