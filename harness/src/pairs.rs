//! C05-C08 (and the set-operation parts of C13/C14/C18): simultaneous traversals of two views.

use crate::api::*;
use crate::base::*;
use crate::ev::*;
use crate::gen::Gen;
use crate::hist::{shape_sig, Flow, Hist};
use crate::model::*;
use crate::sem::*;
use serde_json::json;

pub struct Side {
    pub slot: Slot,
    pub m: Model,
    pub canonical: bool,
    pub is_set: bool,
}

pub struct PairRun {
    pub h: Hist,
    pub sides: Vec<Side>,
    pub prop: String,
    /// upper bound on the random steps each operand makes per round
    pub evolve_max: usize,
    /// Miri mode: only drive the operations (hold-all-then-write); the functional oracles run natively
    pub fast: bool,
}

fn load(h: &mut Hist, s: &mut Side) {
    std::mem::swap(&mut h.m, &mut s.m);
    std::mem::swap(&mut h.canonical, &mut s.canonical);
    h.slot = s.slot;
    h.is_set = s.is_set;
    h.g.is_set = s.is_set;
    h.scratch = if s.is_set { Slot::Set(2) } else { Slot::Map(2) };
}

fn rel(a: EP, b: EP) -> &'static str {
    if a.key() == b.key() {
        "equal"
    } else if a.covers(b) {
        "a-covers-b"
    } else if b.covers(a) {
        "b-covers-a"
    } else {
        "disjoint"
    }
}

fn root_kind(shape: &[ShapeNode], m: &Model, st: &VState) -> &'static str {
    if !st.at_scope() {
        "virtual-above"
    } else if m.contains(st.scope) {
        "stored"
    } else if shape.iter().any(|n| n.prefix.key() == st.scope.key()) {
        "branching"
    } else {
        "virtual"
    }
}

impl PairRun {
    pub fn new(world: Box<dyn crate::world::WorldApi>, prop: &str, g: Gen, replay: serde_json::Value) -> PairRun {
        // flags off: the history runner only keeps the model in step and checks state agreement
        let mut h = Hist::new(world, "none", false, g, replay);
        h.w.reset(3, 3);
        h.prop = prop.to_string();
        let sides = vec![
            Side { slot: Slot::Map(0), m: Model::new(), canonical: true, is_set: false },
            Side { slot: Slot::Map(1), m: Model::new(), canonical: true, is_set: false },
            Side { slot: Slot::Set(0), m: Model::new(), canonical: true, is_set: true },
            Side { slot: Slot::Set(1), m: Model::new(), canonical: true, is_set: true },
        ];
        PairRun { h, sides, prop: prop.to_string(), evolve_max: 25, fast: false }
    }

    /// evolve one operand by `n` random steps; false if the history had to stop
    pub fn evolve(&mut self, ev: &mut Ev, i: usize, n: usize) -> bool {
        let mut ok = true;
        let mut scratch = Ev::new("none");
        self.h.g.extra_keys = self.sides.iter().enumerate().filter(|(j, _)| *j != i).flat_map(|(_, s)| s.m.m.keys().map(|k| EP::new(k.0, k.1))).collect();
        load(&mut self.h, &mut self.sides[i]);
        for _ in 0..n {
            let op = self.h.g.op(&self.h.m);
            // keep set-operation operands free of injected panics
            if let Flow::Stop = self.h.step(&mut scratch, &op) {
                ok = false;
                break;
            }
        }
        load(&mut self.h, &mut self.sides[i]);
        if !ok {
            ev.inconclusive("operand history stopped (state diverged or foreign finding)");
        }
        ok
    }

    fn viol(&self, ev: &mut Ev, sig: &str, msg: String, detail: serde_json::Value) {
        let mut r = self.h.replay.clone();
        r["detail"] = detail;
        ev.violation(&format!("{}/{}", self.prop, sig), format!("[{}] {}", self.h.w.kind(), msg), r);
    }

    /// resolve an operand program against the model; None if the view does not exist / cannot be decided
    fn operand(&mut self, ev: &mut Ev, side: usize, prog: &ViewProg) -> Option<(VState, Vec<ShapeNode>)> {
        let slot = self.sides[side].slot;
        let shape = self.h.w.shape(slot);
        let steps = self.h.w.view(slot, prog, false);
        let c = check_view(&self.sides[side].m, &shape, prog, &steps, false, true, true, self.sides[side].canonical, Cmp::Key);
        if !c.bad.is_empty() {
            ev.inconclusive("operand view is itself wrong (owned by C11/C12)");
            return None;
        }
        match c.fin {
            Some(st) if steps.last().map_or(false, |s| !s.prefix.is_none()) => Some((st, shape)),
            _ => {
                ev.count("pairs/operand_view_missing", 1);
                None
            }
        }
    }

    /// check one set operation on two operands. `same`: Some(self-pair description) when both views come from one map.
    #[allow(clippy::too_many_arguments)]
    pub fn check_pair(&mut self, ev: &mut Ev, op: PairOp, ia: usize, pa: &ViewProg, ib: usize, pb: &ViewProg, selfp: Option<&SelfPair>) -> bool {
        let prop = self.prop.clone();
        if self.fast {
            let (sa, sb) = (self.sides[ia].slot, self.sides[ib].slot);
            let write = if op.is_mut() {
                let pat = self.h.g.pattern();
                Some((self.h.g.tn(4 * (self.sides[ia].m.len() + self.sides[ib].m.len() + 2)), pat))
            } else {
                None
            };
            beat(&format!("check/pair(fast) {:?}", op));
            let obs = {
                let w = &mut self.h.w;
                guarded(|| match selfp {
                    Some(sp) => w.self_pair(op, sa, sp, write),
                    None => w.pair(op, (sa, pa), (sb, pb), write),
                })
            };
            match obs {
                Ok(o) => {
                    if o.a.is_some() && o.b.is_some() {
                        ev.evaluations += 1;
                        ev.count(&format!("pairs/op/{:?}", op), 1);
                        ev.count("mut/refs_held_simultaneously", (o.addrs_l.len() + o.addrs_r.len()) as u64);
                        ev.hash(mix(self.sides[ia].m.hash() ^ self.sides[ib].m.hash().rotate_left(17) ^ op as u64));
                    }
                    for (k, t) in &o.written_l {
                        self.sides[ia].m.set_value(EP::new(k.0, k.1), *t);
                    }
                    for (k, t) in &o.written_r {
                        self.sides[ib].m.set_value(EP::new(k.0, k.1), *t);
                    }
                    return true;
                }
                Err(p) => {
                    if p.harness() {
                        ev.inconclusive(&format!("harness error: {} at {}", p.msg, p.site()));
                    } else {
                        self.viol(ev, &format!("panic/{:?}/{}", op, p.sig()), format!("{:?} panicked: {} at {}", op, p.msg, p.site()), json!({"op": format!("{:?}", op)}));
                    }
                    return false;
                }
            }
        }
        let (sta, shape_a) = match self.operand(ev, ia, pa) {
            Some(x) => x,
            None => return true,
        };
        let (stb, shape_b) = match self.operand(ev, ib, pb) {
            Some(x) => x,
            None => return true,
        };
        let ea = self.sides[ia].m.sub(sta.scope);
        let eb = self.sides[ib].m.sub(stb.scope);
        let (sa, sb) = (self.sides[ia].slot, self.sides[ib].slot);
        let write = if op.is_mut() {
            let pat = self.h.g.pattern();
            Some((self.h.g.tn(4 * (ea.len() + eb.len() + 2)), pat))
        } else {
            None
        };
        // C13: the read-only twin first (same operands), to be mirrored by the mutable variant
        let mirror_owner = prop == "C13"
            || (prop == "C05" && op == PairOp::UnionMut)
            || (prop == "C06" && op == PairOp::IntersectionMut)
            || (prop == "C07" && matches!(op, PairOp::DifferenceMut | PairOp::CoveringDifferenceMut));
        let twin = if op.is_mut() && mirror_owner {
            let w = &mut self.h.w;
            guarded(|| match selfp {
                Some(sp) => w.self_pair(op.base(), sa, sp, None),
                None => w.pair(op.base(), (sa, pa), (sb, pb), None),
            })
            .ok()
        } else {
            None
        };
        beat(&format!("check/pair {:?} a={:?} b={:?}", op, pa, pb));
        let obs = {
            let w = &mut self.h.w;
            guarded(|| match selfp {
                Some(sp) => w.self_pair(op, sa, sp, write),
                None => w.pair(op, (sa, pa), (sb, pb), write),
            })
        };
        let desc = json!({"op": format!("{:?}", op), "a": format!("{:?} {:?}", sa, pa), "b": format!("{:?} {:?}", sb, pb), "self_pair": format!("{:?}", selfp), "E(a)": format!("{:?}", ea.entries()), "E(b)": format!("{:?}", eb.entries())});
        let obs = match obs {
            Ok(o) => o,
            Err(p) => {
                if p.oracle() {
                    let own = ["C05", "C06", "C07", "C08", "C13", "C14", "C20"].contains(&prop.as_str());
                    if own {
                        self.viol(ev, &format!("oracle-assert/{:?}/{}", op, p.sig()), format!("{} during {:?}", p.msg, op), desc);
                        return false;
                    }
                } else if p.harness() {
                    ev.inconclusive(&format!("harness error: {} at {}", p.msg, p.site()));
                    return false;
                }
                self.viol(ev, &format!("panic/{:?}/{}", op, p.sig()), format!("{:?} panicked: {} at {}", op, p.msg, p.site()), desc);
                return false;
            }
        };
        let (Some(oa), Some(ob)) = (&obs.a, &obs.b) else {
            ev.count("pairs/operand_view_missing", 1);
            return true;
        };
        // gate: the operands are the views the model says they are
        if !items_eq(&oa.entries, &ea.entries(), Cmp::Key) || !items_eq(&ob.entries, &eb.entries(), Cmp::Key) {
            ev.inconclusive("operand view differs from the model (owned by C11/C12)");
            return true;
        }
        ev.evaluations += 1;
        let ka = root_kind(&shape_a, &self.sides[ia].m, &sta);
        let kb = root_kind(&shape_b, &self.sides[ib].m, &stb);
        let r = rel(sta.scope, stb.scope);
        ev.count(&format!("pairs/op/{:?}", op), 1);
        ev.count(&format!("pairs/root-relation/{}", r), 1);
        ev.count(&format!("pairs/root-kinds/{}+{}", ka, kb), 1);
        if sa == sb {
            ev.count("pairs/same-map", 1);
        }
        if matches!((sa, sb), (Slot::Map(_), Slot::Set(_)) | (Slot::Set(_), Slot::Map(_))) {
            ev.count("pairs/map-x-set", 1);
        }
        ev.hash(mix(ea.hash() ^ eb.hash().rotate_left(17) ^ H::new().s(r).s(ka).s(kb).u(op as u64).get()));
        // ---- expected
        let a_unit = matches!(sa, Slot::Set(_));
        let b_unit = matches!(sb, Slot::Set(_));
        let base = op.base();
        let exp: Vec<(Key, Tag)> = match base {
            PairOp::Union => model_union(&ea, &eb),
            PairOp::Intersection => model_intersection(&ea, &eb).into_iter().map(|k| (k, Tag::Both)).collect(),
            PairOp::Difference => model_difference(&ea, &eb).into_iter().map(|k| (k, Tag::Left)).collect(),
            PairOp::CoveringDifference => model_covering_difference(&ea, &eb).into_iter().map(|k| (k, Tag::Left)).collect(),
            _ => unreachable!(),
        };
        let own_sel = match base {
            PairOp::Union => prop == "C05",
            PairOp::Intersection => prop == "C06",
            _ => prop == "C07",
        } || (op.is_mut() && prop == "C13");
        let opn = format!("{:?}", op);
        if obs.exceeded {
            if own_sel || prop == "C20" {
                self.viol(ev, &format!("{}/diverges", opn), format!("{} yields more items than both views have nodes", opn), desc);
                return false;
            }
            ev.inconclusive("set operation diverges (owned by C05-C07/C20)");
            return true;
        }
        if let Some((what, msg)) = &obs.proto_bad {
            if own_sel {
                self.viol(ev, &format!("{}/{}", opn, what), format!("{}: {}", opn, msg), desc);
                return false;
            }
            ev.count("foreign/pair_iterator_protocol", 1);
        } else if !op.is_mut() {
            ev.count("pairs/iterator_protocol_checks", 1);
        }
        // selection, order, tags, values
        let got: Vec<(Key, Tag)> = obs.items.iter().map(|i| (i.key, i.tag)).collect();
        let mut sel_ok = got == exp;
        let mut why = String::new();
        if !sel_ok {
            let gk: Vec<Key> = got.iter().map(|x| x.0).collect();
            let ek: Vec<Key> = exp.iter().map(|x| x.0).collect();
            let mut gs = gk.clone();
            gs.sort();
            gs.dedup();
            why = if gk == ek {
                "wrong-tag".into()
            } else if gs.len() != gk.len() {
                "item-twice".into()
            } else if gs == ek {
                "wrong-order".into()
            } else if gk.len() < ek.len() {
                "items-missing".into()
            } else {
                "wrong-items".into()
            };
        } else {
            for it in &obs.items {
                let vl = ea.m.get(&it.key).map(|x| if a_unit { 0 } else { x.1 });
                let vr = eb.m.get(&it.key).map(|x| if b_unit { 0 } else { x.1 });
                let l_ok = it.l.is_none() || it.l == vl;
                let r_ok = it.r.is_none() || it.r == vr;
                let present_ok = match it.tag {
                    Tag::Both => it.l.is_some() && (it.r.is_some() || matches!(base, PairOp::Difference | PairOp::CoveringDifference)),
                    Tag::Left => it.l.is_some(),
                    Tag::Right => it.r.is_some(),
                };
                if !l_ok || !r_ok || !present_ok {
                    sel_ok = false;
                    why = "wrong-value".into();
                    break;
                }
            }
        }
        if !sel_ok {
            if own_sel {
                let relsig = format!("{}/{}", r, if sa == sb { "same-map" } else { "two-maps" });
                self.viol(ev, &format!("{}/{}/{}", opn, why, relsig), format!("{} of views {:?} ({}) and {:?} ({}) yields {:?}, expected {:?}", opn, sta.scope, ka, stb.scope, kb, obs.items.iter().map(|i| (EP::new(i.key.0, i.key.1), i.tag, i.l, i.r)).collect::<Vec<_>>(), exp.iter().map(|(k, t)| (EP::new(k.0, k.1), *t)).collect::<Vec<_>>()), desc);
                return false;
            }
            ev.inconclusive("set operation selects the wrong items (owned by C05-C07)");
            return true;
        }
        if !obs.fused && !op.is_mut() {
            if own_sel {
                self.viol(ev, &format!("{}/not-fused", opn), format!("{} yields items after returning None", opn), desc);
                return false;
            }
        }
        // ---- C08: LPM annotations
        if prop == "C08" && matches!(op, PairOp::Union | PairOp::Difference | PairOp::DifferenceMut) {
            for it in &obs.items {
                let k = EP::new(it.key.0, it.key.1);
                let checks: Vec<(&str, Option<Item>, Option<Item>, bool)> = match it.tag {
                    Tag::Left => vec![("right", it.lpm_r, eb.lpm(k), b_unit)],
                    Tag::Right => vec![("left", it.lpm_l, ea.lpm(k), a_unit)],
                    Tag::Both => vec![],
                };
                for (which, got, want, unit) in checks {
                    ev.count("lpm/annotations_checked", 1);
                    if want.is_some() {
                        ev.count("lpm/annotations_some", 1);
                    }
                    let same = match (got, want) {
                        (None, None) => true,
                        // "the longest prefix stored in that other view": the stored representation, bit for bit
                        (Some(g), Some(w)) => g.0 == w.0 && (unit || g.1 == w.1),
                        _ => false,
                    };
                    if !same {
                        let kind = match (got, want) {
                            (Some(g), Some(w)) if g.0.key() == w.0.key() && (unit || g.1 == w.1) => "not-the-stored-representation",
                            (Some(g), _) if !g.0.covers(k) => "does-not-cover",
                            (Some(_), None) => "spurious",
                            (None, Some(_)) => "missing",
                            _ => "not-longest",
                        };
                        self.viol(ev, &format!("{}/lpm-{}/{}/{}", opn, which, kind, r), format!("{} item {:?} ({:?}) reports {} match {:?}; the longest covering prefix in the other view ({:?}, {}) is {:?}", opn, k, it.tag, which, got, if which == "right" { stb.scope } else { sta.scope }, if which == "right" { kb } else { ka }, want), desc);
                        return false;
                    }
                }
            }
        }
        // ---- C18: reported representation
        if prop == "C18" {
            for it in &obs.items {
                let sa_ = ea.m.get(&it.key).map(|x| x.0);
                let sb_ = eb.m.get(&it.key).map(|x| x.0);
                let ok = match it.tag {
                    Tag::Left => Some(it.prefix.bits) == sa_,
                    Tag::Right => Some(it.prefix.bits) == sb_,
                    Tag::Both => Some(it.prefix.bits) == sa_ || Some(it.prefix.bits) == sb_,
                };
                if !ok {
                    self.viol(ev, &format!("repr/{}/{:?}", opn, it.tag), format!("{} item reports representation {:?}; stored: left {:?} right {:?}", opn, it.prefix, sa_, sb_), desc);
                    return false;
                }
                for (ann, m) in [(it.lpm_l, &ea), (it.lpm_r, &eb)] {
                    if let Some((p, _)) = ann {
                        if m.m.get(&p.key()).map(|x| x.0) != Some(p.bits) {
                            self.viol(ev, &format!("repr/{}/lpm-annotation", opn), format!("{} annotation reports representation {:?} which is not the stored one", opn, p), desc);
                            return false;
                        }
                    }
                }
            }
        }
        // ---- C13: the mutable variant yields the same prefixes (bit for bit), presence and values
        if let Some(t) = &twin {
            let a: Vec<(EP, Tag, Option<u64>, Option<u64>)> = t.items.iter().map(|i| (i.prefix, i.tag, i.l, if matches!(base, PairOp::Difference | PairOp::CoveringDifference) { None } else { i.r })).collect();
            let b: Vec<(EP, Tag, Option<u64>, Option<u64>)> = obs.items.iter().map(|i| (i.prefix, i.tag, i.l, if matches!(base, PairOp::Difference | PairOp::CoveringDifference) { None } else { i.r })).collect();
            ev.count("mut/mirror_comparisons", 1);
            if a != b {
                self.viol(ev, &format!("mut/{}/differs-from-readonly", opn), format!("{} yields {:?}, the read-only {:?} yields {:?}", opn, b, base, a), desc);
                return false;
            }
        }
        // ---- mutable variants: addresses, writes, shape
        if op.is_mut() {
            if prop == "C14" || prop == "C13" {
                let sz = obs.val_size.max(1);
                let mut all: Vec<usize> = Vec::new();
                if !a_unit {
                    all.extend(&obs.addrs_l);
                }
                if !b_unit {
                    all.extend(&obs.addrs_r);
                }
                ev.count("mut/refs_held_simultaneously", all.len() as u64);
                all.sort();
                if let Some(x) = all.windows(2).find(|x| x[1] < x[0] + sz) {
                    self.viol(ev, &format!("addr/{}/aliasing", opn), format!("{} handed out overlapping mutable references at {:#x} and {:#x}", opn, x[0], x[1]), desc);
                    return false;
                }
            }
            // the writes
            for (k, t) in &obs.written_l {
                self.sides[ia].m.set_value(EP::new(k.0, k.1), *t);
            }
            for (k, t) in &obs.written_r {
                self.sides[ib].m.set_value(EP::new(k.0, k.1), *t);
            }
            for (i, sh) in [(ia, &shape_a), (ib, &shape_b)] {
                let slot = self.sides[i].slot;
                let got = self.h.w.trav(slot, Trav::Iter, None).items;
                if got != self.sides[i].m.entries() {
                    if prop == "C13" {
                        self.viol(ev, &format!("mut/{}/writes-landed-elsewhere", opn), format!("after writing through {} the map holds {:?}, expected {:?}", opn, got, self.sides[i].m.entries()), desc);
                        return false;
                    }
                    ev.inconclusive("writes through a *_mut set operation landed elsewhere (owned by C13)");
                    return false;
                }
                if prop == "C13" && shape_sig(&self.h.w.shape(slot)) != shape_sig(sh) {
                    self.viol(ev, &format!("mut/{}/changed-shape", opn), format!("{} changed the tree shape", opn), desc);
                    return false;
                }
            }
        }
        if ev.samples.len() < ev.max_samples && !obs.items.is_empty() {
            ev.sample(json!({"op": opn, "root_relation": r, "root_kinds": [ka, kb], "E(a)": ea.entries().iter().map(|x| format!("{:?}", x.0)).collect::<Vec<_>>(), "E(b)": eb.entries().iter().map(|x| format!("{:?}", x.0)).collect::<Vec<_>>(), "result": obs.items.iter().map(|i| format!("{:?}:{:?}", EP::new(i.key.0, i.key.1), i.tag)).collect::<Vec<_>>()}));
        }
        true
    }

    /// one round: evolve operands, then check many view pairs
    pub fn round(&mut self, ev: &mut Ev, pairs: usize) -> bool {
        let prop = self.prop.clone();
        if self.fast {
            // Miri mode: build the four operands directly (no per-step oracles): random key subsets,
            // a few value-less leftovers, shared keys between the operands
            let mut shared: Vec<EP> = Vec::new();
            for _ in 0..4 {
                shared.push(self.h.g.random_uni());
            }
            for i in 0..4 {
                let slot = self.sides[i].slot;
                let is_set = self.sides[i].is_set;
                let n = 2 + self.h.g.rng.below(7);
                let mut m = Model::new();
                let mut list: Vec<Item> = Vec::new();
                for j in 0..n {
                    let k = if j < 2 { shared[self.h.g.rng.below(4)] } else { self.h.g.random_uni() };
                    let k = self.h.g.host(k);
                    let t = if is_set { 0 } else { self.h.g.t() };
                    list.push((k, t));
                    m.insert(k, t);
                }
                let r = {
                    let w = &mut self.h.w;
                    guarded(|| {
                        w.apply(slot, &Op::Replace(ReplaceHow::InsertList(list.clone())));
                    })
                };
                if r.is_err() {
                    ev.inconclusive("operand construction panicked (owned by C20)");
                    return false;
                }
                // one value-less leftover now and then
                if self.h.g.rng.chance(1, 2) {
                    if let Some(k) = self.h.g.resident(&m) {
                        let w = &mut self.h.w;
                        let _ = guarded(|| w.apply(slot, &Op::RemoveKeepTree(k)));
                        m.remove(k);
                    }
                }
                self.sides[i].m = m;
                self.sides[i].canonical = false;
            }
        } else {
            for i in 0..4 {
                let n = (3 + self.h.g.rng.below(25)).min(self.evolve_max.max(1));
                if !self.evolve(ev, i, n) {
                    return false;
                }
            }
        }
        // make the two maps share keys now and then (copy some entries across)
        let ops: Vec<PairOp> = match prop.as_str() {
            "C05" => vec![PairOp::Union, PairOp::UnionMut],
            "C06" => vec![PairOp::Intersection, PairOp::IntersectionMut],
            "C07" => vec![PairOp::Difference, PairOp::CoveringDifference, PairOp::DifferenceMut, PairOp::CoveringDifferenceMut],
            "C08" => vec![PairOp::Union, PairOp::Difference, PairOp::DifferenceMut],
            "C13" => vec![PairOp::UnionMut, PairOp::IntersectionMut, PairOp::DifferenceMut, PairOp::CoveringDifferenceMut],
            // C14: the read-only twins too (shared references into both operands are held across them:
            // under Miri a read-only operation that creates a mutable reference internally is an error)
            "C14" => vec![PairOp::UnionMut, PairOp::IntersectionMut, PairOp::DifferenceMut, PairOp::CoveringDifferenceMut, PairOp::UnionMut, PairOp::IntersectionMut, PairOp::DifferenceMut, PairOp::CoveringDifferenceMut, PairOp::Union, PairOp::Intersection, PairOp::Difference, PairOp::CoveringDifference],
            _ => vec![PairOp::Union, PairOp::Intersection, PairOp::Difference, PairOp::CoveringDifference, PairOp::UnionMut, PairOp::IntersectionMut, PairOp::DifferenceMut, PairOp::CoveringDifferenceMut],
        };
        for _ in 0..pairs {
            let op = *self.h.g.rng.pick(&ops);
            let ia = self.h.g.rng.below(4);
            // same-map pairs now and then
            let same = self.h.g.rng.chance(1, 5);
            let ib = if same { ia } else { (ia + 1 + self.h.g.rng.below(3)) % 4 };
            if same && op.is_mut() {
                // two disjoint mutable views of one map
                let ma = self.sides[ia].m.clone();
                let base = ViewProg { root: if self.h.g.rng.chance(1, 2) { None } else { Some(self.h.g.hkey(&ma)) }, nav: vec![] };
                let nl = self.h.g.rng.below(2);
                let nr = self.h.g.rng.below(2);
                let sp = SelfPair { base: base.clone(), nav_l: self.h.g.nav(&ma, nl), nav_r: self.h.g.nav(&ma, nr), swap: self.h.g.rng.chance(1, 2) };
                let mut pl = base.clone();
                pl.nav.push(Nav::SplitL);
                pl.nav.extend(sp.nav_l.iter().cloned());
                let mut pr = base.clone();
                pr.nav.push(Nav::SplitR);
                pr.nav.extend(sp.nav_r.iter().cloned());
                let (pa, pb) = if sp.swap { (pr, pl) } else { (pl, pr) };
                if !self.check_pair(ev, op, ia, &pa, ia, &pb, Some(&sp)) {
                    return false;
                }
            } else {
                let ma = self.sides[ia].m.clone();
                let mb = self.sides[ib].m.clone();
                let mut pa = if self.fast && self.h.g.rng.chance(1, 2) { ViewProg::default() } else { self.h.g.view_prog(&ma) };
                // bias the second root towards relatives of the first (equal, nested, sibling)
                let mut pb = match self.h.g.rng.below(4) {
                    0 => pa.clone(),
                    1 => self.h.g.view_prog(&ma),
                    _ => self.h.g.view_prog(&mb),
                };
                if self.h.g.rng.chance(1, 6) {
                    pa = ViewProg::default();
                }
                if self.h.g.rng.chance(1, 6) || (self.fast && self.h.g.rng.chance(1, 2)) {
                    pb = ViewProg::default();
                }
                if !self.check_pair(ev, op, ia, &pa, ib, &pb, None) {
                    return false;
                }
            }
        }
        true
    }
}
