#!/bin/bash
# Build every engine flavour once (offline). Each check rebuilds incrementally from /repo's tree.
set -u
cd /verif/harness
export CARGO_NET_OFFLINE=true
[ -f Cargo.lock ] || cp /repo/Cargo.lock Cargo.lock
set -e
cargo build --offline
cargo build --offline --release
CARGO_TARGET_DIR=/verif/harness/target-miri MIRIFLAGS="-Zmiri-disable-isolation" cargo +nightly miri run --offline --features boxval -- noop || true
RUSTFLAGS="-Zsanitizer=address -Cforce-frame-pointers=yes" CARGO_TARGET_DIR=/verif/harness/target-asan cargo +nightly build --offline --target x86_64-unknown-linux-gnu --features boxval
RUSTFLAGS="-Zsanitizer=thread" CARGO_TARGET_DIR=/verif/harness/target-tsan cargo +nightly build --offline -Zbuild-std --target x86_64-unknown-linux-gnu
echo setup done
