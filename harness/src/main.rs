#![allow(dead_code)]
mod algebra;
mod api;
mod base;
mod ev;
mod extra;
mod gen;
mod hist;
mod kinds;
mod model;
mod pairs;
mod pool;
mod sem;
mod world;

use base::*;
use ev::*;
use serde_json::json;
use std::collections::BTreeMap;
use std::time::Instant;

// counting allocator: live heap bytes of the process (black-box cross-check for C16)
struct Counting;
static LIVE: std::sync::atomic::AtomicUsize = std::sync::atomic::AtomicUsize::new(0);
unsafe impl std::alloc::GlobalAlloc for Counting {
    unsafe fn alloc(&self, l: std::alloc::Layout) -> *mut u8 {
        LIVE.fetch_add(l.size(), std::sync::atomic::Ordering::Relaxed);
        unsafe { std::alloc::System.alloc(l) }
    }
    unsafe fn dealloc(&self, p: *mut u8, l: std::alloc::Layout) {
        LIVE.fetch_sub(l.size(), std::sync::atomic::Ordering::Relaxed);
        unsafe { std::alloc::System.dealloc(p, l) }
    }
}
#[global_allocator]
static GLOBAL: Counting = Counting;

pub struct Args(pub BTreeMap<String, String>);
impl Args {
    pub fn parse() -> (String, Args) {
        let mut it = std::env::args().skip(1);
        let cmd = it.next().unwrap_or_else(|| "help".into());
        let mut m = BTreeMap::new();
        for a in it {
            if let Some((k, v)) = a.split_once('=') {
                m.insert(k.to_string(), v.to_string());
            }
        }
        (cmd, Args(m))
    }
    pub fn s(&self, k: &str, d: &str) -> String {
        self.0.get(k).cloned().unwrap_or_else(|| d.to_string())
    }
    pub fn u(&self, k: &str, d: u64) -> u64 {
        self.0.get(k).and_then(|v| v.parse().ok()).unwrap_or(d)
    }
    pub fn json(&self) -> serde_json::Value {
        json!(self.0)
    }
}

pub struct Budget {
    start: Instant,
    pub secs: u64,
}
impl Budget {
    pub fn new(secs: u64) -> Self {
        Budget { start: Instant::now(), secs }
    }
    pub fn expired(&self) -> bool {
        self.secs > 0 && self.start.elapsed().as_secs() >= self.secs
    }
}

fn cmd_hist(a: &Args) -> Ev {
    let prop = a.s("prop", "C01");
    let kind = a.s("kind", "u8");
    let seed = a.u("seed", 1);
    let shard = a.u("shard", 0);
    let steps = a.u("steps", 2000);
    let hist_len = a.u("hist_len", 300);
    let budget = Budget::new(a.u("time", 0));
    let only_hist = a.0.get("only_hist").and_then(|v| v.parse::<u64>().ok());
    let stop_at = a.u("stop_at", u64::MAX);
    let sets = a.u("sets", 1) == 1;
    let maxlen = a.0.get("maxlen").and_then(|v| v.parse::<u8>().ok());
    let mut ev = Ev::new(&prop);
    let (w, keeps) = kinds::kind_facts(&kind);
    let uni = universe(w, maxlen);
    let uni_spine = universe_with_spine(w, maxlen);
    let mut total = 0u64;
    let mut h = 0u64;
    while total < steps && !budget.expired() {
        let hi = only_hist.unwrap_or(h);
        h += 1;
        let is_set = sets && hi % 4 == 3 && !matches!(prop.as_str(), "C13" | "C14");
        let rng = Rng::from_parts(&[seed, shard, hi, 0x4849]);
        // wide types: every third history works on the universe that holds a full-depth spine
        let deep = w > 8 && maxlen.is_none() && hi % 3 == 1 && a.u("spine", 1) == 1;
        // ... and some a random universe (arbitrary lengths and bit positions; a large one now and then)
        let wide_free = w > 8 && maxlen.is_none() && a.u("random_uni", 1) == 1;
        let big = wide_free && hi % 12 == 5 && !matches!(prop.as_str(), "C11" | "C12");
        let rnd = wide_free && (hi % 6 == 2 || big);
        let this_uni = if rnd {
            let mut ur = Rng::from_parts(&[seed, shard, hi, 0x554e]);
            let target = if big { 1500 + ur.below(1500) } else { 120 + ur.below(120) };
            universe_random(w, &mut ur, target)
        } else if deep {
            uni_spine.clone()
        } else {
            uni.clone()
        };
        if (rnd || deep) && this_uni.len() <= 700 && !lcp_closed(&this_uni) {
            ev.inconclusive("HARNESS: query universe is not closed under longest common prefix");
            break;
        }
        let mut g = gen::Gen::new(w, keeps, this_uni, rng, is_set);
        if deep {
            g.spine = spine(w);
        }
        g.flood = (hi % 4 == 2 || big) && maxlen.is_none() && a.u("flood", 1) == 1;
        g.max_keys = a.u("max_keys", if w == 8 { 36 } else { 28 }) as usize;
        g.canonical_only = match prop.as_str() {
            "C15" | "C11" => hi % 2 == 0,
            _ => hi % 5 == 0,
        };
        match prop.as_str() {
            "C13" | "C14" => g.bias_mut = true,
            "C11" | "C12" => g.bias_view = true,
            "C10" => {
                g.bias_bulk = true;
                // retain with a panicking predicate: exactly the rejected entries are gone
                g.allow_inject = hi % 2 == 1;
            }
            "C16" => {
                g.bias_bulk = true;
                // a panicking callback must not lose or duplicate slots either
                g.allow_inject = hi % 2 == 1;
            }
            "C04" => g.allow_inject = hi % 2 == 1,
            "C18" => g.bias_entry = true,
            "C15" => {
                // panicking user callbacks must not leave structural leftovers either
                g.allow_inject = hi % 2 == 1;
                g.bias_entry = true;
            }
            "C20" => {
                g.allow_inject = true;
                g.bias_entry = true;
                g.bias_bulk = true;
            }
            _ => {}
        }
        let world = world::new_world(&kind);
        g.serde_ok = world.serde_supported(if is_set { api::Slot::Set(0) } else { api::Slot::Map(0) });
        let mut rj = a.json();
        rj["cmd"] = json!("hist");
        rj["only_hist"] = json!(hi);
        let mut hs = hist::Hist::new(world, &prop, is_set, g, rj);
        hs.sweep_every = a.u("sweep_every", 1);
        if big {
            hs.sweep_every = hs.sweep_every.max(24);
            ev.count("histories/large_random_universe", 1);
        } else if rnd {
            ev.count("histories/random_universe", 1);
        } else if deep {
            ev.count("histories/spine_universe", 1);
        }
        hs.fast = a.u("fast", 0) == 1;
        let mut sample_ops: Vec<String> = Vec::new();
        for _ in 0..hist_len {
            if total >= steps || hs.step_no >= stop_at || budget.expired() {
                break;
            }
            let op = hs.g.op(&hs.m);
            if sample_ops.len() < 10 {
                sample_ops.push(format!("{:?}", op));
            }
            total += 1;
            if let hist::Flow::Stop = hs.step(&mut ev, &op) {
                break;
            }
        }
        ev.count("histories", 1);
        ev.count(if is_set { "histories/set" } else { "histories/map" }, 1);
        if hs.g.canonical_only {
            ev.count("histories/canonical_alphabet", 1);
        }
        ev.sample(json!({"kind": kind, "container": if is_set {"PrefixSet"} else {"PrefixMap"}, "history": hi, "first_ops": sample_ops, "final_entries": hs.m.len()}));
        if only_hist.is_some() || !ev.violations.is_empty() {
            break;
        }
    }
    ev
}

fn cmd_pairs(a: &Args) -> Ev {
    let prop = a.s("prop", "C05");
    let kind = a.s("kind", "u8");
    let seed = a.u("seed", 1);
    let shard = a.u("shard", 0);
    let rounds = a.u("rounds", 200);
    let per_round = a.u("pairs", 40) as usize;
    let budget = Budget::new(a.u("time", 0));
    let only = a.0.get("only_run").and_then(|v| v.parse::<u64>().ok());
    let mut ev = Ev::new(&prop);
    let (w, keeps) = kinds::kind_facts(&kind);
    let uni = universe(w, a.0.get("maxlen").and_then(|v| v.parse::<u8>().ok()));
    let uni_spine = universe_with_spine(w, a.0.get("maxlen").and_then(|v| v.parse::<u8>().ok()));
    let mut run = 0u64;
    let mut done = 0u64;
    while done < rounds && !budget.expired() && ev.violations.is_empty() {
        let ri = only.unwrap_or(run);
        run += 1;
        let rng = Rng::from_parts(&[seed, shard, ri, 0x5052]);
        let deep = w > 8 && !a.0.contains_key("maxlen") && ri % 3 == 1 && a.u("spine", 1) == 1;
        let mut g = gen::Gen::new(w, keeps, if deep { uni_spine.clone() } else { uni.clone() }, rng, false);
        if deep {
            g.spine = spine(w);
        }
        g.max_keys = a.u("max_keys", 24) as usize;
        let mut rj = a.json();
        rj["cmd"] = json!("pairs");
        rj["only_run"] = json!(ri);
        let mut pr = pairs::PairRun::new(world::new_world(&kind), &prop, g, rj);
        pr.evolve_max = a.u("evolve", 25) as usize;
        pr.fast = a.u("fast", 0) == 1;
        // several rounds on the same evolving operands
        for _ in 0..8 {
            if done >= rounds || budget.expired() {
                break;
            }
            done += 1;
            ev.count("rounds", 1);
            if !pr.round(&mut ev, per_round) {
                break;
            }
        }
        if only.is_some() {
            break;
        }
    }
    ev
}

fn cmd_threads(a: &Args) -> Ev {
    let kind = a.s("kind", "u8");
    let seed = a.u("seed", 1);
    let shard = a.u("shard", 0);
    let iters = a.u("iters", 200);
    let budget = Budget::new(a.u("time", 0));
    let mut ev = Ev::new(&a.s("prop", "C14"));
    let (w, keeps) = kinds::kind_facts(&kind);
    let uni = universe(w, a.0.get("maxlen").and_then(|v| v.parse::<u8>().ok()));
    let mut g = gen::Gen::new(w, keeps, uni, Rng::from_parts(&[seed, shard, 0x5448]), false);
    let mut world = world::new_world(&kind);
    let mut rj = a.json();
    rj["cmd"] = json!("threads");
    let mut sigs = std::collections::HashSet::new();
    extra::run_threads(world.as_mut(), &mut g, &mut ev, iters, &budget, rj, &mut sigs);
    ev.count("threads/distinct_interleaving_signatures", sigs.len() as u64);
    ev
}

fn cmd_churn(a: &Args) -> Ev {
    let kind = a.s("kind", "u8");
    let seed = a.u("seed", 1);
    let shard = a.u("shard", 0);
    let cycles = a.u("cycles", 20000);
    let budget = Budget::new(a.u("time", 0));
    let mut ev = Ev::new("C16");
    let (w, keeps) = kinds::kind_facts(&kind);
    let uni = universe(w, None);
    let mut g = gen::Gen::new(w, keeps, uni, Rng::from_parts(&[seed, shard, 0x4348]), false);
    let mut world = world::new_world(&kind);
    let mut rj = a.json();
    rj["cmd"] = json!("churn");
    extra::run_churn(world.as_mut(), &mut g, &mut ev, cycles, a.u("rc", 0) == 1, &budget, rj, &|| LIVE.load(std::sync::atomic::Ordering::Relaxed));
    ev
}

fn cmd_sweep(a: &Args) -> Ev {
    let prop = a.s("prop", "C01");
    let kind = a.s("kind", "u8");
    let maxlen = a.u("maxlen", 2) as u8;
    let budget = Budget::new(a.u("time", 0));
    let mut ev = Ev::new(&prop);
    let mut rj = a.json();
    rj["cmd"] = json!("sweep");
    let is_set = a.u("set", 0) == 1;
    extra::run_sweep(&kind, &prop, maxlen, is_set, a.u("max_states", 200000) as usize, &budget, &mut ev, rj);
    ev
}

fn cmd_algebra(a: &Args) -> Ev {
    let kind = a.s("kind", "u8");
    let seed = a.u("seed", 1);
    let mut ev = Ev::new("C17");
    let mut rj = a.json();
    rj["cmd"] = json!("algebra");
    let exhaustive = (kind == "u8" && a.u("exhaustive", 1) == 1) || (kind == "u16" && a.u("exhaustive", 0) == 1);
    let per_len = a.u("per_len", 4) as usize;
    let max_pairs = a.u("max_pairs", 6_000_000);
    fn go<K: kinds::Kind>(ev: &mut Ev, seed: u64, ex: bool, per_len: usize, max_pairs: u64, rj: serde_json::Value) {
        algebra::algebra::<K>(ev, seed, ex, per_len, max_pairs, rj)
    }
    with_kind!(kind.as_str(), go, &mut ev, seed, exhaustive, per_len, max_pairs, rj);
    if exhaustive && kind == "u8" {
        ev.count("exhaustive_u8", 1);
    }
    if exhaustive && kind == "u16" {
        ev.count("exhaustive_unary_u16", 1);
    }
    ev
}

fn cmd_pool(a: &Args) -> Ev {
    let kind = a.s("kind", "u8");
    let seed = a.u("seed", 1);
    let shard = a.u("shard", 0);
    let rounds = a.u("rounds", 50);
    let budget = Budget::new(a.u("time", 0));
    let mut ev = Ev::new("C19");
    let (w, keeps) = kinds::kind_facts(&kind);
    let uni = universe(w, None);
    for r in 0..rounds {
        if budget.expired() || !ev.violations.is_empty() {
            break;
        }
        let is_set = r % 3 == 2;
        let rng = Rng::from_parts(&[seed, shard, r, 0x504f]);
        let mut g = gen::Gen::new(w, keeps, uni.clone(), rng, is_set);
        let mut world = world::new_world(&kind);
        let mut rj = a.json();
        rj["cmd"] = json!("pool");
        rj["round"] = json!(r);
        pool::run_pool(world.as_mut(), &mut g, &mut ev, is_set, rj);
        ev.count("pools", 1);
    }
    ev
}

fn main() {
    install_panic_hook();
    let (cmd, a) = Args::parse();
    // thread workloads burn CPU on several threads at once; everything else is single-threaded
    start_hang_detector(a.u("hang_cpu_s", if cmd == "threads" { 30 } else { 20 }), a.json());
    let ev = match cmd.as_str() {
        "hist" => cmd_hist(&a),
        "pool" => cmd_pool(&a),
        "pairs" => cmd_pairs(&a),
        "threads" => cmd_threads(&a),
        "churn" => cmd_churn(&a),
        "sweep" => cmd_sweep(&a),
        "algebra" => cmd_algebra(&a),
        _ => {
            eprintln!("usage: ptv <hist|...> key=value ...");
            std::process::exit(2);
        }
    };
    println!("PTV-RESULT {}", ev.to_json());
}
