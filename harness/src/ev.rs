//! Evidence accumulation, violation records, panic capture.

use serde_json::{json, Value};
use std::collections::{BTreeMap, HashSet};
use std::panic::{catch_unwind, AssertUnwindSafe};

#[derive(Clone, Debug)]
pub struct Violation {
    pub prop: String,
    /// stable signature: call site + structural condition (used for known-findings matching)
    pub sig: String,
    pub msg: String,
    pub replay: Value,
}

pub struct Ev {
    pub prop: String,
    pub evaluations: u64,
    pub hashes: HashSet<u64>,
    pub counters: BTreeMap<String, u64>,
    pub samples: Vec<Value>,
    pub violations: Vec<Violation>,
    pub inconclusive: u64,
    pub inconclusive_reasons: BTreeMap<String, u64>,
    pub max_hashes: usize,
    pub max_samples: usize,
    pub max_violations: usize,
}

impl Ev {
    pub fn new(prop: &str) -> Self {
        Ev {
            prop: prop.to_string(),
            evaluations: 0,
            hashes: HashSet::new(),
            counters: BTreeMap::new(),
            samples: Vec::new(),
            violations: Vec::new(),
            inconclusive: 0,
            inconclusive_reasons: BTreeMap::new(),
            max_hashes: 50_000,
            max_samples: 3,
            max_violations: 5,
        }
    }
    #[inline]
    pub fn count(&mut self, k: &str, n: u64) {
        if let Some(c) = self.counters.get_mut(k) {
            *c += n;
        } else {
            self.counters.insert(k.to_string(), n);
        }
    }
    pub fn max(&mut self, k: &str, n: u64) {
        let c = self.counters.entry(k.to_string()).or_insert(0);
        if n > *c {
            *c = n;
        }
    }
    #[inline]
    pub fn hash(&mut self, h: u64) {
        if self.hashes.len() < self.max_hashes {
            self.hashes.insert(h);
        }
    }
    pub fn sample(&mut self, v: Value) {
        if self.samples.len() < self.max_samples {
            self.samples.push(v);
        }
    }
    pub fn inconclusive(&mut self, reason: &str) {
        self.inconclusive += 1;
        *self.inconclusive_reasons.entry(reason.to_string()).or_insert(0) += 1;
    }
    pub fn violation(&mut self, sig: &str, msg: String, replay: Value) {
        self.count("violations_total", 1);
        if self.violations.iter().any(|v| v.sig == sig) && self.violations.len() >= 1 {
            // keep one witness per signature
            return;
        }
        if self.violations.len() < self.max_violations {
            self.violations.push(Violation { prop: self.prop.clone(), sig: sig.to_string(), msg, replay });
        }
    }
    pub fn to_json(&self) -> Value {
        json!({
            "prop": self.prop,
            "evaluations": self.evaluations,
            "hashes": self.hashes.iter().map(|h| format!("{:016x}", h)).collect::<Vec<_>>(),
            "counters": self.counters,
            "samples": self.samples,
            "violations": self.violations.iter().map(|v| json!({"prop": v.prop, "sig": v.sig, "msg": v.msg, "replay": v.replay})).collect::<Vec<_>>(),
            "inconclusive": self.inconclusive,
            "inconclusive_reasons": self.inconclusive_reasons,
        })
    }
}

// ---------------------------------------------------------------------------------------------
// panic capture
// ---------------------------------------------------------------------------------------------

#[derive(Clone, Debug, Default)]
pub struct PanicInfo {
    pub msg: String,
    pub file: String,
    pub line: u32,
}

impl PanicInfo {
    /// panic raised by the injected user callbacks
    pub fn injected(&self) -> bool {
        self.msg.starts_with("INJECTED:")
    }
    /// deliberate oracle assertion inside the adapter (a property violation, not a library panic)
    pub fn oracle(&self) -> bool {
        self.msg.contains("ORACLE:")
    }
    pub fn harness(&self) -> bool {
        self.msg.starts_with("HARNESS:") || (self.file.contains("/verif/") && !self.oracle() && !self.injected())
    }
    pub fn site(&self) -> String {
        let f = self.file.rsplit("/src/").next().unwrap_or(&self.file);
        format!("{}:{}", f, self.line)
    }
    /// location without the line number (stable across edits) plus the message head
    pub fn sig(&self) -> String {
        let f = self.file.rsplit("/src/").next().unwrap_or(&self.file);
        let head: String = self.msg.chars().take(48).filter(|c| !c.is_ascii_digit()).collect();
        format!("{}|{}", f, head)
    }
}

// global (not thread-local): panics of worker threads are re-raised on the main thread by
// `resume_unwind`, which does not call the hook again
static LAST_PANIC: std::sync::Mutex<Option<PanicInfo>> = std::sync::Mutex::new(None);

fn set_last(p: Option<PanicInfo>) -> Option<PanicInfo> {
    let mut g = LAST_PANIC.lock().unwrap_or_else(|e| e.into_inner());
    std::mem::replace(&mut *g, p)
}

pub fn install_panic_hook() {
    std::panic::set_hook(Box::new(|info| {
        let msg = if let Some(s) = info.payload().downcast_ref::<&str>() {
            s.to_string()
        } else if let Some(s) = info.payload().downcast_ref::<String>() {
            s.clone()
        } else {
            "<non-string panic>".to_string()
        };
        let (file, line) = info.location().map(|l| (l.file().to_string(), l.line())).unwrap_or_default();
        if std::env::var("PTV_VERBOSE_PANIC").is_ok() {
            eprintln!("panic: {} at {}:{}", msg, file, line);
        }
        set_last(Some(PanicInfo { msg, file, line }));
    }));
}

/// run `f`, capturing a panic with its message and location
pub fn guarded<R>(f: impl FnOnce() -> R) -> Result<R, PanicInfo> {
    set_last(None);
    match catch_unwind(AssertUnwindSafe(f)) {
        Ok(r) => Ok(r),
        Err(_) => Err(set_last(None).unwrap_or_default()),
    }
}

// ---------------------------------------------------------------------------------------------
// divergence detector: a library call that burns CPU without ever returning
// ---------------------------------------------------------------------------------------------

pub static BEAT: std::sync::atomic::AtomicU64 = std::sync::atomic::AtomicU64::new(0);
static PHASE: std::sync::Mutex<String> = std::sync::Mutex::new(String::new());

/// mark progress; `what` describes the call that is about to run
pub fn beat(what: &str) {
    BEAT.fetch_add(1, std::sync::atomic::Ordering::Relaxed);
    if let Ok(mut g) = PHASE.try_lock() {
        g.clear();
        g.push_str(what);
    }
}

fn cpu_ticks() -> Option<u64> {
    let s = std::fs::read_to_string("/proc/self/stat").ok()?;
    let rest = s.rsplit(')').next()?;
    let f: Vec<&str> = rest.split_whitespace().collect();
    // after the command name: state is field 0, utime field 11, stime field 12
    Some(f.get(11)?.parse::<u64>().ok()? + f.get(12)?.parse::<u64>().ok()?)
}

/// Start a thread that ends the process with exit code 3 and a `PTV-HANG` line when the monitored
/// call has consumed `cpu_secs` seconds of *CPU time* (not wall-clock) without any heartbeat.
pub fn start_hang_detector(cpu_secs: u64, args_json: serde_json::Value) {
    if cfg!(miri) || cpu_ticks().is_none() {
        return;
    }
    std::thread::spawn(move || {
        let hz = 100u64; // USER_HZ
        let mut last_beat = BEAT.load(std::sync::atomic::Ordering::Relaxed);
        let mut cpu_at_beat = cpu_ticks().unwrap_or(0);
        loop {
            std::thread::sleep(std::time::Duration::from_millis(500));
            let b = BEAT.load(std::sync::atomic::Ordering::Relaxed);
            let c = cpu_ticks().unwrap_or(cpu_at_beat);
            if b != last_beat {
                last_beat = b;
                cpu_at_beat = c;
                continue;
            }
            if c.saturating_sub(cpu_at_beat) >= cpu_secs * hz {
                let phase = PHASE.lock().map(|g| g.clone()).unwrap_or_default();
                println!("PTV-HANG {}", serde_json::json!({"phase": phase, "cpu_seconds_without_progress": (c - cpu_at_beat) / hz, "args": args_json}));
                std::process::exit(3);
            }
        }
    });
}
