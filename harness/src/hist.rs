//! Random-hostile histories on one map (or set) with per-step oracles.

use crate::api::*;
use crate::base::*;
use crate::ev::*;
use crate::gen::Gen;
use crate::model::{canonical_shape, Model};
use crate::sem::*;
use crate::world::WorldApi;
use serde_json::json;
use std::collections::VecDeque;

#[derive(Clone, Default, Debug)]
pub struct Flags {
    pub ret: bool,    // C01 return values
    pub exact: bool,  // C01 exact-match sweep
    pub lpm: bool,    // C02
    pub iter: bool,   // C03
    pub len: bool,    // C04
    pub cover: bool,  // C09
    pub child: bool,  // C10
    pub view: bool,   // C11
    pub find: bool,   // C12
    pub muta: bool,   // C13
    pub addr: bool,   // C14 (address monitor)
    pub shape: bool,  // C15
    pub arena: bool,  // C16
    pub repr: bool,   // C18
    pub clone: bool,  // C19 (clone independence / round trips inside histories)
    pub panic: bool,  // C20
}

impl Flags {
    pub fn for_prop(p: &str) -> Flags {
        let mut f = Flags::default();
        match p {
            "C01" => {
                f.ret = true;
                f.exact = true;
            }
            "C02" => f.lpm = true,
            "C03" => f.iter = true,
            "C04" => f.len = true,
            "C09" => f.cover = true,
            "C10" => f.child = true,
            "C11" => f.view = true,
            "C12" => f.find = true,
            "C13" => f.muta = true,
            "C14" => f.addr = true,
            "C15" => f.shape = true,
            "C16" => f.arena = true,
            "C18" => f.repr = true,
            "C19" => f.clone = true,
            "C20" => f.panic = true,
            "ALL" => {
                f = Flags { ret: true, exact: true, lpm: true, iter: true, len: true, cover: true, child: true, view: true, find: true, muta: true, addr: true, shape: true, arena: true, repr: true, clone: true, panic: true };
            }
            _ => {}
        }
        f
    }
}

pub enum Flow {
    Continue,
    /// this history cannot be continued (violation found or state diverged)
    Stop,
}

pub struct Hist {
    pub w: Box<dyn WorldApi>,
    pub slot: Slot,
    /// scratch slot of the same type (for clones / fresh builds)
    pub scratch: Slot,
    pub m: Model,
    pub g: Gen,
    pub f: Flags,
    pub prop: String,
    pub canonical: bool,
    pub recent: VecDeque<String>,
    pub step_no: u64,
    pub replay: serde_json::Value,
    /// full universe sweep every `sweep_every` steps (1 = every step); a targeted sweep otherwise
    pub sweep_every: u64,
    /// C16: high-water mark of reachable nodes since the last clear / rebuild
    pub hw_reach: usize,
    pub is_set: bool,
    /// skip the state-level query sweeps in `step` (the caller runs `state_checks` itself)
    pub light: bool,
    pub resyncs: u32,
    pub proto_n: u64,
    /// (values alive) - (values held in arenas) when this history started; must never change
    pub value_skew: i64,
    /// Miri mode: only drive the calls (incl. hold-all-then-write patterns) and keep the model in
    /// step; the functional oracles run natively
    pub fast: bool,
}

fn owners_of_oracle_panic(msg: &str) -> &'static [&'static str] {
    if msg.contains("divergence") {
        &["C20", "C03", "C13"]
    } else if msg.contains("not fused") {
        &["C03", "C13", "C05", "C06", "C07"]
    } else if msg.contains("held reference lost") {
        &["C13", "C14"]
    } else if msg.contains("UnionItem") || msg.contains("neither side") {
        &["C05", "C08"]
    } else if msg.contains("shape walk") {
        &["C15", "C20"]
    } else if msg.contains("TrieView::into_iter") {
        &["C03", "C11"]
    } else if msg.contains("serde") {
        &["C19"]
    } else {
        &[]
    }
}

impl Hist {
    pub fn new(mut w: Box<dyn WorldApi>, prop: &str, is_set: bool, g: Gen, replay: serde_json::Value) -> Hist {
        w.reset(2, 2);
        let (slot, scratch) = if is_set { (Slot::Set(0), Slot::Set(1)) } else { (Slot::Map(0), Slot::Map(1)) };
        let value_skew = w.value_accounting().map_or(0, |(l, p)| l - p as i64);
        Hist { w, slot, scratch, m: Model::new(), g, f: Flags::for_prop(prop), prop: prop.to_string(), canonical: true, recent: VecDeque::new(), step_no: 0, replay, sweep_every: 1, hw_reach: 1, is_set, light: false, resyncs: 0, proto_n: 0, value_skew, fast: false }
    }

    fn replay_info(&self) -> serde_json::Value {
        let mut r = self.replay.clone();
        r["stop_at"] = json!(self.step_no);
        r["recent_ops"] = json!(self.recent.iter().cloned().collect::<Vec<_>>());
        r["model_keys"] = json!(self.m.entries().iter().map(|(p, v)| format!("{:?}={}", p, v)).collect::<Vec<_>>());
        r
    }

    fn viol(&self, ev: &mut Ev, sig: &str, msg: String) {
        let kind = if self.is_set { "set" } else { "map" };
        ev.violation(&format!("{}/{}", self.prop, sig), format!("[{} {} step {}] {}", self.w.kind(), kind, self.step_no, msg), self.replay_info());
    }

    /// classify a panic raised while running an observer / operation of the property under check
    fn on_panic(&self, ev: &mut Ev, p: &PanicInfo, site: &str, own: bool) -> Flow {
        if p.oracle() {
            if owners_of_oracle_panic(&p.msg).contains(&self.prop.as_str()) {
                self.viol(ev, &format!("oracle-assert/{}", p.sig()), format!("{} during {}", p.msg, site));
            } else {
                if std::env::var("PTV_DEBUG").is_ok() {
                    eprintln!("INCONCLUSIVE oracle {} at {}", p.msg, site);
                }
                ev.inconclusive("oracle assertion owned by another property");
            }
        } else if p.harness() {
            ev.inconclusive(&format!("harness error: {} at {}", p.msg, p.site()));
        } else if own || self.f.panic {
            self.viol(ev, &format!("panic/{}/{}", site, p.sig()), format!("library panicked: '{}' at {} during {}", p.msg, p.site(), site));
        } else {
            ev.inconclusive("library panic during a step not owned by this property");
        }
        Flow::Stop
    }

    // -----------------------------------------------------------------------------------------
    // one step
    // -----------------------------------------------------------------------------------------

    pub fn step(&mut self, ev: &mut Ev, op: &Op) -> Flow {
        self.step_no += 1;
        if self.recent.len() >= 24 {
            self.recent.pop_front();
        }
        self.recent.push_back(format!("{:?}", op));
        let pre = self.m.clone();
        let needs_shape = !self.fast || matches!(op, Op::ViewMut(..));
        let pre_shape = if needs_shape {
            match guarded(|| self.w.shape(self.slot)) {
                Ok(s) => s,
                Err(p) => return self.on_panic(ev, &p, "shape-walk", self.f.shape),
            }
        } else {
            vec![]
        };
        let pre_len = self.w.len(self.slot).0;
        let slot = self.slot;
        if self.f.repr {
            // keep the pre-state: a divergence is attributed by re-running the call with host bits cleared
            self.w.copy(self.slot, self.scratch);
        }
        beat(&format!("apply/{} :: {:?}", op_name(op), op));
        let act = {
            let w = &mut self.w;
            guarded(|| w.apply(slot, op))
        };
        ev.evaluations += 1;
        ev.count(&format!("op/{}", op_name(op)), 1);
        // ---- compare the return value and advance the model
        let mut bad: Vec<(String, String)> = Vec::new();
        let mut wrote = false;
        let mut injected = false;
        let ret_owner: bool; // is a return-value mismatch a violation of the property under check?
        match (&act, op) {
            (Ok(Ret::Unsupported), _) => {
                ev.count("op/unsupported", 1);
                return Flow::Continue;
            }
            (Err(p), _) if p.injected() => {
                injected = true;
                ev.count("injected_panics", 1);
                match op {
                    Op::Retain(_, _) => {
                        let log = self.w.take_pred_log();
                        self.check_retain_log(&pre, &log, false, &mut bad);
                        for (e, _, keep) in &log {
                            if !keep {
                                self.m.remove(*e);
                            }
                        }
                    }
                    Op::Entry(p, acts) => {
                        let (_, pn) = model_entry(&mut self.m, *p, acts);
                        if !pn {
                            bad.push(("injected-panic-unexpected".into(), format!("callback panicked although the model says it is not called: {:?}", op)));
                        }
                    }
                    _ => bad.push(("injected-panic-unexpected".into(), format!("injected panic in {:?}", op))),
                }
                ret_owner = self.f.panic || self.f.shape || self.f.len || self.f.arena || self.f.child;
            }
            (Err(p), _) => {
                let own = self.f.ret || self.f.panic || self.f.clone || (self.f.muta && is_write_op(op)) || (self.f.child && matches!(op, Op::Retain(..) | Op::RemoveChildren(_)));
                return self.on_panic(ev, p, &format!("apply/{}", op_name(op)), own);
            }
            (Ok(r), _) => {
                ret_owner = self.f.ret || (self.f.muta && is_write_op(op)) || (self.f.child && matches!(op, Op::Retain(..) | Op::RemoveChildren(_))) || (self.f.repr && matches!(op, Op::Entry(..)));
                self.model_step(ev, op, r, &pre, &pre_shape, &mut bad, &mut wrote);
            }
        }
        if self.fast {
            if !bad.is_empty() {
                ev.count("fast/call_level_mismatch_ignored", 1);
            }
            ev.hash(self.m.hash());
            return Flow::Continue;
        }
        match op_is_canonical(op, &pre) {
            None => self.canonical = true,
            Some(false) => self.canonical = false,
            Some(true) => {}
        }
        if !bad.is_empty() {
            let owned: Vec<&(String, String)> = bad.iter().filter(|(s, _)| self.sig_owned(s) || (ret_owner && !s.starts_with("TrieView"))).collect();
            if let Some((s, m)) = owned.first() {
                self.viol(ev, s, m.to_string());
                return Flow::Stop;
            }
            if std::env::var("PTV_DEBUG").is_ok() {
                eprintln!("FOREIGN step {} {:?}", self.step_no, bad.first());
            }
            // a finding owned by another property: take the library's own account of its
            // contents as the new reference and keep checking this property's observers against it
            ev.count("foreign/call_level_mismatch", 1);
            if let Flow::Stop = self.resync(ev) {
                return Flow::Stop;
            }
        }
        beat(&format!("agree/get_key_value after {:?}", op));
        // ---- state agreement (precondition of everything else)
        if let Flow::Stop = self.check_agree(ev, op, wrote, injected) {
            return Flow::Stop;
        }
        // ---- per-property post-checks
        beat(&format!("shape-walk after {:?}", op));
        let post_shape = match guarded(|| self.w.shape(self.slot)) {
            Ok(s) => s,
            Err(p) => return self.on_panic(ev, &p, "shape-walk", self.f.shape),
        };
        let shape_sig = shape_sig(&post_shape);
        ev.hash(mix(self.m.hash() ^ shape_sig.rotate_left(21)));
        if !post_shape.is_empty() {
            let valueless = post_shape.iter().skip(1).filter(|n| !n.has_value).count();
            let canon_nodes = canonical_shape(&self.m.m.keys().copied().collect::<Vec<_>>()).len();
            if post_shape.len() != canon_nodes {
                ev.count("states/non_canonical_shape", 1);
            } else {
                ev.count("states/canonical_shape", 1);
            }
            if valueless > 0 {
                ev.count("states/with_valueless_nodes", 1);
            }
            if post_shape.iter().skip(1).any(|n| !n.has_value && n.left.is_none() && n.right.is_none()) {
                ev.count("states/with_valueless_leaf", 1);
            }
        }
        macro_rules! run {
            ($flag:expr, $name:expr, $call:expr) => {
                if $flag {
                    beat(&format!("check/{} after {}", $name, self.recent.back().map(|s| s.as_str()).unwrap_or("")));
                    match guarded(|| $call) {
                        Ok(mut b) => {
                            if let Some((s, m)) = b.drain(..).next() {
                                self.viol(ev, &s, m);
                                return Flow::Stop;
                            }
                        }
                        Err(p) => return self.on_panic(ev, &p, $name, true),
                    }
                }
            };
        }
        if !self.light {
            if let Flow::Stop = self.query_checks(ev, op, &post_shape) {
                return Flow::Stop;
            }
        }
        if self.f.muta && wrote {
            // writes must not change the key set, the shape or len()
            if shape_sig != crate::hist::shape_sig(&pre_shape) {
                self.viol(ev, &format!("write-changed-shape/{}", op_name(op)), format!("{:?} changed the tree shape", op));
                return Flow::Stop;
            }
            if self.w.len(self.slot).0 != pre_len {
                self.viol(ev, &format!("write-changed-len/{}", op_name(op)), format!("{:?} changed len()", op));
                return Flow::Stop;
            }
        }
        if self.f.panic && injected {
            // after a panic in a user callback: size-consistent, well-formed, storage partition intact
            let keep = self.canonical;
            self.canonical = false;
            run!(true, "len-after-injected-panic", self.check_len().into_iter().map(|(s, m)| (format!("after-injected-panic/{}", s), m)).collect::<Vec<_>>());
            run!(true, "shape-after-injected-panic", self.check_shape(ev, op, &pre, &pre_shape, &post_shape).into_iter().map(|(s, m)| (format!("after-injected-panic/{}", s), m)).collect::<Vec<_>>());
            run!(true, "arena-after-injected-panic", {
                let a = self.w.arena(self.slot);
                match arena_partition(&a).1 {
                    Some(p) => vec![(format!("after-injected-panic/arena/{}/after={}", p.0, op_name(op)), format!("after a panic in the callback of {:?}: {}", op, p.1))],
                    None => vec![],
                }
            });
            self.canonical = keep;
            ev.count("injected_panics/consistency_checks", 1);
        }
        if self.f.panic && self.step_no % 4 == 0 {
            // Debug formatting and default iterators are public operations too
            let q = self.g.hkey(&self.m);
            let slot = self.slot;
            let cap = 400 * (post_shape.len() + 4);
            let w = &mut self.w;
            match guarded(|| w.debug_fmt(slot, q)) {
                Ok(n) => {
                    ev.count("debug_fmt/calls", 1);
                    if n == 0 || n > cap {
                        self.viol(ev, "debug-fmt/length", format!("Debug output has {} bytes for {} nodes", n, post_shape.len()));
                        return Flow::Stop;
                    }
                }
                Err(p) => return self.on_panic(ev, &p, "debug-fmt", true),
            }
        }
        run!(self.f.shape, "shape", self.check_shape(ev, op, &pre, &pre_shape, &post_shape));
        run!(self.f.arena, "arena", self.check_arena(ev, op, &post_shape));
        run!(self.f.clone, "clone", self.check_clone(ev));
        let own_values = self.f.arena || (self.f.clone && matches!(op, Op::Replace(_))) || (self.f.panic && injected);
        run!(self.f.arena || self.f.clone || self.f.panic, "value-accounting", self.check_values(ev, op, own_values));
        run!(self.f.arena, "consuming-iterators", self.check_consumers(ev));
        Flow::Continue
    }

    /// conservation of values: alive in the process == physically present in the arenas
    fn check_values(&mut self, ev: &mut Ev, op: &Op, own: bool) -> Vec<(String, String)> {
        let (live, phys) = match self.w.value_accounting() {
            Some(x) => x,
            None => return vec![],
        };
        let skew = live - phys as i64;
        ev.count("values/accounting_checks", 1);
        ev.max("values/max_alive", live.max(0) as u64);
        if skew == self.value_skew {
            return vec![];
        }
        let was = self.value_skew;
        self.value_skew = skew;
        if !own {
            ev.count("foreign/value_accounting", 1);
            return vec![];
        }
        let kind = if skew > was { "leaked" } else { "owned-twice" };
        vec![(
            format!("values/{}/after={}", kind, op_name(op)),
            format!("after {:?}: {} values are alive in the process, {} are held in the node arenas of the maps (difference was {} before the call): {}", op, live, phys, was, if skew > was { "values that no map owns any more were never dropped (leaked)" } else { "more values are held than exist: one value has two owners (bitwise copy) or was dropped while still stored" }),
        )]
    }

    /// C16: the consuming iterators of a clone (run to the end, finished by fold/last/count/nth, or
    /// dropped half-way) must give back every value they took over
    fn check_consumers(&mut self, ev: &mut Ev) -> Vec<(String, String)> {
        if self.is_set || self.step_no % 2 == 1 {
            return vec![];
        }
        let slot = self.slot;
        let n = self.m.len();
        let mut did = Vec::new();
        for which in [Trav::IntoIter, Trav::IntoKeys, Trav::IntoValues] {
            let (k, fin) = pick_fin(&mut self.g.rng, n);
            crate::world::set_proto(k, fin);
            let _ = self.w.trav(slot, which, None);
            crate::world::clear_proto();
            did.push(format!("{:?}: {} next() then {}", which, k, fin_name(fin)));
        }
        for _ in 0..3 {
            let q = self.g.hkey(&self.m);
            let (k, fin) = pick_fin(&mut self.g.rng, self.m.covered_by(q).len());
            crate::world::set_proto(k, fin);
            let _ = self.w.ql(slot, QL::IntoChildren, q);
            crate::world::clear_proto();
            did.push(format!("into_children({:?}): {} next() then {}", q, k, fin_name(fin)));
        }
        ev.count("values/consuming_iterator_probes", did.len() as u64);
        let (live, phys) = match self.w.value_accounting() {
            Some(x) => x,
            None => return vec![],
        };
        let skew = live - phys as i64;
        if skew == self.value_skew {
            return vec![];
        }
        let was = self.value_skew;
        self.value_skew = skew;
        let kind = if skew > was { "leaked" } else { "owned-twice" };
        vec![(format!("values/{}/consuming-iterators", kind), format!("after consuming clones of the map ({}): {} values alive in the process, {} held in the arenas (difference was {} before)", did.join("; "), live, phys, was))]
    }


    /// the oracles that are functions of the state alone (query sweeps, traversals, views)
    pub fn query_checks(&mut self, ev: &mut Ev, op: &Op, post_shape: &[ShapeNode]) -> Flow {
        macro_rules! run {
            ($flag:expr, $name:expr, $call:expr) => {
                if $flag {
                    beat(&format!("check/{} after {}", $name, self.recent.back().map(|s| s.as_str()).unwrap_or("")));
                    match guarded(|| $call) {
                        Ok(mut b) => {
                            if let Some((s, m)) = b.drain(..).next() {
                                self.viol(ev, &s, m);
                                return Flow::Stop;
                            }
                        }
                        Err(p) => return self.on_panic(ev, &p, $name, true),
                    }
                }
            };
        }
        let full = self.step_no % self.sweep_every == 0;
        let qs = self.queries(op, full);
        ev.count("queries_swept", qs.len() as u64);
        if full {
            ev.count("full_universe_sweeps", 1);
        }
        run!(self.f.exact, "exact-sweep", self.check_exact(&qs));
        run!(self.f.repr, "repr-sweep", self.check_repr(&qs));
        run!(self.f.lpm, "lpm-sweep", self.check_lpm(&qs));
        run!(self.f.cover, "cover-sweep", self.check_cover(&qs));
        run!(self.f.child, "children-sweep", self.check_children(&qs));
        run!(self.f.iter, "traversals", self.check_iter());
        run!(self.f.muta, "mut-protocol", self.check_mut_protocol(&qs));
        run!(self.f.len, "len", self.check_len());
        run!(self.f.view || self.f.find, "views", self.check_views(ev, &qs, post_shape));
        if self.proto_n > 0 {
            ev.count("iterator_protocol_checks", self.proto_n);
            self.proto_n = 0;
        }
        Flow::Continue
    }

    /// run the state-level oracles on the current state (used by the systematic sweep for new states)
    pub fn state_checks(&mut self, ev: &mut Ev) -> Flow {
        let shape = match guarded(|| self.w.shape(self.slot)) {
            Ok(s) => s,
            Err(p) => return self.on_panic(ev, &p, "shape-walk", self.f.shape),
        };
        let op = Op::Clear; // only used to pick targeted queries; sweeps here are full
        let keep = self.sweep_every;
        self.sweep_every = 1;
        self.step_no = self.step_no.max(1);
        let r = self.query_checks(ev, &op, &shape);
        self.sweep_every = keep;
        r
    }

    /// The model and the library disagree for a reason this property does not own. Re-base the
    /// model on the contents the library itself reports through an observer that is independent
    /// of the property under check (full iteration; for the iteration property: exact lookups of
    /// the whole universe), so that this property's observers are judged against "the stored
    /// entries" as the library sees them. Never happens on a tree where C01 holds.
    fn resync(&mut self, ev: &mut Ev) -> Flow {
        self.resyncs += 1;
        if self.resyncs > 12 {
            ev.inconclusive("state keeps diverging from the model (owned by another property)");
            return Flow::Stop;
        }
        let slot = self.slot;
        let by_lookup = self.f.iter;
        let uni = self.g.uni.clone();
        let items = {
            let w = &mut self.w;
            guarded(|| {
                if by_lookup {
                    uni.iter().filter_map(|q| w.q1(slot, Q1::GetKeyValue, *q)).collect::<Vec<Item>>()
                } else {
                    w.trav(slot, Trav::Iter, None).items
                }
            })
        };
        match items {
            Ok(items) => {
                let mut m = Model::new();
                for (p, v) in items {
                    m.insert(p, v);
                }
                self.m = m;
                self.canonical = false;
                ev.count("foreign/resyncs", 1);
                Flow::Continue
            }
            Err(_) => {
                ev.inconclusive("cannot re-base the model after a foreign finding");
                Flow::Stop
            }
        }
    }

    /// C18 attribution: the scratch slot holds the pre-state. Apply the same call with all host
    /// bits cleared; if that reaches the state the model predicts, the divergence is caused by the
    /// representation of the key (C18), otherwise it is somebody else's.
    fn host_bits_matter(&mut self, op: &Op) -> bool {
        let c = canon_op(op);
        if &c == op {
            return false;
        }
        let scratch = self.scratch;
        let w = &mut self.w;
        let items = guarded(|| {
            w.apply(scratch, &c);
            w.trav(scratch, Trav::Iter, None).items
        });
        match items {
            Ok(items) => {
                let exp = self.m.entries();
                items.len() == exp.len() && items.iter().zip(&exp).all(|(a, b)| a.0.key() == b.0.key() && a.1 == b.1)
            }
            Err(_) => false,
        }
    }

    fn sig_owned(&self, sig: &str) -> bool {
        // call-level findings that belong to specific properties regardless of the op family
        (self.f.addr && sig.starts_with("addr/"))
            || (self.f.muta && (sig.starts_with("mut/") || sig.starts_with("addr/")))
            || (self.f.view && sig.starts_with("TrieView") && !sig.contains("::find"))
            || (self.f.find && sig.starts_with("TrieView") && sig.contains("::find"))
            || (self.f.child && sig.starts_with("retain/"))
            || (self.f.panic && sig.starts_with("injected"))
            || (self.f.repr && sig.starts_with("repr/"))
    }

    // -----------------------------------------------------------------------------------------
    // model transition + call-level comparison
    // -----------------------------------------------------------------------------------------

    fn check_retain_log(&self, pre: &Model, log: &[(EP, u64, bool)], complete: bool, bad: &mut Vec<(String, String)>) {
        let mut seen = std::collections::BTreeSet::new();
        for (e, v, _) in log {
            match pre.get(*e) {
                None => bad.push(("retain/predicate-on-absent".into(), format!("retain predicate called with {:?} which is not stored", e))),
                Some((se, sv)) => {
                    if sv != *v {
                        bad.push(("retain/predicate-value".into(), format!("retain predicate for {:?} got value {} (stored {})", e, v, sv)));
                    }
                    if self.f.repr && se != *e {
                        bad.push(("repr/retain-predicate".into(), format!("retain predicate got representation {:?}, stored {:?}", e, se)));
                    }
                }
            }
            if !seen.insert(e.key()) {
                bad.push(("retain/predicate-twice".into(), format!("retain predicate evaluated twice for {:?}", e)));
            }
        }
        if complete && seen.len() != pre.len() {
            bad.push(("retain/predicate-missed".into(), format!("retain predicate evaluated for {} of {} entries", seen.len(), pre.len())));
        }
    }

    fn check_writes(&self, w: &Writes, expected: &[Item], what: &str, bad: &mut Vec<(String, String)>) {
        let cmp = if self.f.repr { Cmp::Bits } else { Cmp::Key };
        if !items_eq(&w.seen, expected, cmp) {
            bad.push((format!("mut/{}/differs-from-readonly", what), format!("{} yielded {:?}, read-only twin yields {:?}", what, w.seen, expected)));
            return;
        }
        // C14: pairwise distinct, non-overlapping references; stable addresses
        let sz = w.val_size.max(1);
        let mut a: Vec<usize> = w.addrs.clone();
        a.sort();
        for x in a.windows(2) {
            if x[1] < x[0] + sz && w.val_size > 0 {
                bad.push((format!("addr/{}/aliasing", what), format!("{} handed out overlapping mutable references at {:#x} and {:#x} (size {})", what, x[0], x[1], sz)));
                return;
            }
        }
        if w.val_size > 0 && !w.addrs_after.is_empty() && w.addrs_after != w.addrs {
            bad.push((format!("addr/{}/not-entry-address", what), format!("{}: a yielded reference does not point at the entry stored under its prefix", what)));
        }
    }

    #[allow(clippy::too_many_arguments)]
    fn model_step(&mut self, ev: &mut Ev, op: &Op, r: &Ret, pre: &Model, pre_shape: &[ShapeNode], bad: &mut Vec<(String, String)>, wrote: &mut bool) {
        let is_set = self.is_set;
        let mut expect: Option<Ret> = None;
        match op {
            Op::Insert(p, v) => {
                let old = self.m.insert(*p, if is_set { 0 } else { *v });
                expect = Some(if is_set { Ret::Bool(old.is_none()) } else { Ret::Val(old) });
            }
            Op::Remove(p) | Op::RemoveKeepTree(p) => {
                let old = self.m.remove(*p);
                expect = Some(if is_set { Ret::Bool(old.is_some()) } else { Ret::Val(old) });
            }
            Op::RemoveChildren(p) => {
                self.m.remove_children(*p);
                expect = Some(Ret::Unit);
            }
            Op::Clear => {
                self.m = Model::new();
                expect = Some(Ret::Unit);
            }
            Op::Retain(_, _) => {
                let log = self.w.take_pred_log();
                self.check_retain_log(pre, &log, true, bad);
                for (e, _, keep) in &log {
                    if !keep {
                        self.m.remove(*e);
                    }
                }
                ev.count("retain/predicate_calls", log.len() as u64);
                expect = Some(Ret::Unit);
            }
            Op::Entry(p, acts) => {
                let (obs, pn) = model_entry(&mut self.m, *p, acts);
                if pn {
                    bad.push(("injected-panic-missing".into(), format!("{:?}: the callback must have been called (and panicked) but the call returned", op)));
                }
                // compare, prefix-comparison strictness depends on C18
                if let Ret::Entry(got) = r {
                    let cmp = if self.f.repr { Cmp::Bits } else { Cmp::Key };
                    let same = got.len() == obs.len()
                        && got.iter().zip(&obs).all(|(a, b)| match (a, b) {
                            (EObs::Key(x), EObs::Key(y)) => ep_eq(*x, *y, cmp),
                            (x, y) => x == y,
                        });
                    if !same {
                        let sig = if got.iter().zip(&obs).any(|(a, b)| matches!((a, b), (EObs::Key(x), EObs::Key(y)) if x.key() == y.key() && x != y)) { "repr/entry-key" } else { "ret/entry" };
                        bad.push((sig.into(), format!("{:?} observed {:?}, model says {:?}", op, got, obs)));
                    }
                } else {
                    bad.push(("ret/entry".into(), format!("{:?} returned {:?}", op, r)));
                }
                *wrote = false;
            }
            Op::GetMutWrite(p, x) => {
                expect = Some(Ret::Val(self.m.set_value(*p, *x)));
                *wrote = true;
            }
            Op::GetLpmMutWrite(p, x) => {
                let l = self.m.lpm(*p);
                if let Some((k, _)) = l {
                    self.m.set_value(k, *x);
                }
                // compare with key / bits strictness
                let cmp = if self.f.repr { Cmp::Bits } else { Cmp::Key };
                match (r, l) {
                    (Ret::Lpm(None), None) => {}
                    (Ret::Lpm(Some(a)), Some(b)) if item_eq(*a, b, cmp) => {}
                    _ => bad.push(("mut/get_lpm_mut".into(), format!("get_lpm_mut({:?}) -> {:?}, model says {:?}", p, r, l))),
                }
                *wrote = true;
            }
            Op::MutTravWrite(which, sel, _, pat) => {
                let exp = match which {
                    MutTrav::IterMut | MutTrav::ValuesMut => self.m.entries(),
                    MutTrav::ChildrenMut => self.m.covered_by(*sel),
                };
                if let Ret::Writes(w) = r {
                    let name = match which {
                        MutTrav::IterMut => "iter_mut",
                        MutTrav::ValuesMut => "values_mut",
                        MutTrav::ChildrenMut => "children_mut",
                    };
                    self.check_writes(w, &exp, name, bad);
                    if *pat != WritePattern::ReadOnly && bad.is_empty() {
                        for (i, (e, _)) in exp.iter().enumerate() {
                            self.m.set_value(*e, w.written[i]);
                        }
                    }
                    ev.count("mut/refs_held_simultaneously", w.addrs.len() as u64);
                } else {
                    bad.push(("mut/ret".into(), format!("{:?} returned {:?}", op, r)));
                }
                *wrote = true;
            }
            Op::ViewMut(prog, act) => {
                let Ret::View(steps, aobs) = r else {
                    bad.push(("ret/view".into(), format!("{:?} returned {:?}", op, r)));
                    return;
                };
                let cmp = if self.f.repr { Cmp::Bits } else { Cmp::Key };
                let c = check_view(pre, pre_shape, prog, steps, true, true, true, self.canonical, cmp);
                ev.count("view/steps_checked", c.steps_checked);
                ev.count("view/virtual_roots", c.virtual_roots);
                ev.count("view/nav_below_virtual", c.nav_below_virtual);
                bad.extend(c.bad);
                if !bad.is_empty() {
                    return;
                }
                let Some(st) = c.fin else {
                    return;
                };
                let real = st.at_scope() && pre_shape.iter().any(|n| n.prefix.key() == st.scope.key());
                let own = if st.at_scope() { pre.get(st.scope) } else { None };
                let last_prefix = steps.last().map(|s| s.prefix).unwrap_or(NO_EP);
                match (act, aobs) {
                    (VAct::None, _) => {}
                    (VAct::ValueMutWrite(x), VActObs::Old(o)) => {
                        if *o != own.map(|i| i.1) {
                            bad.push(("mut/value_mut".into(), format!("value_mut at {:?} saw {:?}, model {:?}", st.prefix, o, own)));
                        } else if own.is_some() {
                            self.m.set_value(st.scope, *x);
                        }
                        *wrote = true;
                    }
                    (VAct::PrefixValueMutWrite(x), VActObs::Pv(o)) => {
                        let ok = match (o, own) {
                            (None, None) => true,
                            (Some(a), Some(b)) => item_eq(*a, b, cmp),
                            _ => false,
                        };
                        if !ok {
                            bad.push(("mut/prefix_value_mut".into(), format!("prefix_value_mut at {:?} saw {:?}, model {:?}", st.prefix, o, own)));
                        } else if own.is_some() {
                            self.m.set_value(st.scope, *x);
                        }
                        *wrote = true;
                    }
                    (VAct::Set(x), VActObs::Set(res)) => {
                        ev.count(if real { "view/set_on_node" } else { "view/set_on_virtual" }, 1);
                        match (real, res) {
                            (true, Ok(old)) => {
                                if *old != own.map(|i| i.1) {
                                    bad.push(("ret/view-set".into(), format!("set at {:?} returned {:?}, model {:?}", st.prefix, old, own)));
                                } else if own.is_some() {
                                    self.m.set_value(st.scope, if is_set { 0 } else { *x });
                                } else {
                                    // value-less node: the entry keeps the node's existing prefix
                                    self.m.insert(EP::new(last_prefix.bits, st.scope.len), if is_set { 0 } else { *x });
                                    ev.count("view/set_created_entry", 1);
                                }
                            }
                            (false, Err(v)) => {
                                if *v != if is_set { 0 } else { *x } {
                                    bad.push(("ret/view-set".into(), format!("set on virtual view handed back {:?} instead of {:?}", v, x)));
                                }
                            }
                            (true, Err(_)) => bad.push(("ret/view-set".into(), format!("set at real node {:?} failed", st.prefix))),
                            (false, Ok(_)) => bad.push(("ret/view-set".into(), format!("set at virtual position {:?} (scope {:?}) succeeded", st.prefix, st.scope))),
                        }
                    }
                    (VAct::Remove, VActObs::Old(o)) => {
                        if *o != own.map(|i| i.1) {
                            bad.push(("ret/view-remove".into(), format!("remove at {:?} returned {:?}, model {:?}", st.prefix, o, own)));
                        } else if own.is_some() {
                            self.m.remove(st.scope);
                        }
                    }
                    (VAct::IterMutWrite(_, pat), VActObs::Writes(w)) | (VAct::ValuesMutWrite(_, pat), VActObs::Writes(w)) | (VAct::IntoIterWrite(_, pat), VActObs::Writes(w)) => {
                        let exp = st.entries(pre);
                        let name = match act {
                            VAct::IterMutWrite(..) => "view.iter_mut",
                            VAct::ValuesMutWrite(..) => "view.values_mut",
                            _ => "view.into_iter",
                        };
                        self.check_writes(w, &exp, name, bad);
                        if *pat != WritePattern::ReadOnly && bad.is_empty() && !is_set {
                            for (i, (e, _)) in exp.iter().enumerate() {
                                self.m.set_value(*e, w.written[i]);
                            }
                        }
                        ev.count("mut/refs_held_simultaneously", w.addrs.len() as u64);
                        *wrote = true;
                    }
                    (VAct::ReborrowThenWrite(x), VActObs::Reborrow(o, old)) => {
                        // the read-only reborrow sees exactly what the mutable view sees
                        let lastm = steps.last().unwrap();
                        if o.entries != lastm.entries || o.prefix != lastm.prefix || o.value != lastm.value {
                            bad.push(("mut/reborrow-view".into(), format!("(&view_mut).view() at {:?} differs from the mutable view", st.prefix)));
                        }
                        if *old != own.map(|i| i.1) {
                            bad.push(("mut/value_mut".into(), format!("value_mut after reborrow saw {:?}, model {:?}", old, own)));
                        } else if own.is_some() {
                            self.m.set_value(st.scope, *x);
                        }
                        *wrote = true;
                    }
                    (a, o) => bad.push(("ret/view-act".into(), format!("{:?} observed {:?}", a, o))),
                }
            }
            Op::Replace(how) => {
                match how {
                    ReplaceHow::FromList(l) | ReplaceHow::InsertList(l) => {
                        self.m = Model::new();
                        for (p, v) in l {
                            self.m.insert(*p, if is_set { 0 } else { *v });
                        }
                    }
                    ReplaceHow::EntryList(l) => {
                        self.m = Model::new();
                        for (p, v) in l {
                            if is_set {
                                self.m.insert(*p, 0);
                            } else if !self.m.contains(*p) {
                                self.m.insert(*p, *v);
                            }
                        }
                    }
                    _ => {}
                }
                expect = Some(Ret::Unit);
            }
        }
        if is_set {
            // sets carry no values: the model keeps 0 everywhere
            for v in self.m.m.values_mut() {
                v.1 = 0;
            }
        }
        if let Some(e) = expect {
            if &e != r {
                bad.push((format!("ret/{}", op_name(op)), format!("{:?} returned {:?}, model says {:?}", op, r, e)));
            }
        }
    }

    // -----------------------------------------------------------------------------------------
    // query selection
    // -----------------------------------------------------------------------------------------

    fn queries(&mut self, op: &Op, full: bool) -> Vec<EP> {
        let mut qs: Vec<EP> = Vec::new();
        if full {
            qs.extend(self.g.uni.iter().copied());
        } else {
            // targeted: the op's key with its relatives, all resident keys, a random sample
            if let Some(k) = op_key(op) {
                qs.push(k.canon());
                for l in 0..k.len {
                    qs.push(EP::new(k.bits, l).canon());
                }
                if k.len < self.g.w {
                    qs.push(EP::new(k.net(), k.len + 1));
                    qs.push(EP::new(k.net() | (1u128 << (127 - k.len as u32)), k.len + 1));
                }
            }
            qs.extend(self.m.m.keys().map(|k| EP::new(k.0, k.1)));
            for _ in 0..16 {
                qs.push(self.g.random_uni());
            }
            qs.retain(|q| self.g.uni_keys.contains(&q.key()));
        }
        // fresh host bits for every query
        let mut out = Vec::with_capacity(qs.len());
        for q in qs {
            out.push(self.g.host(q));
        }
        out
    }

    // -----------------------------------------------------------------------------------------
    // state agreement
    // -----------------------------------------------------------------------------------------

    fn check_agree(&mut self, ev: &mut Ev, op: &Op, wrote: bool, injected: bool) -> Flow {
        let slot = self.slot;
        let uni: Vec<EP> = self.g.uni.clone();
        let res = {
            let w = &mut self.w;
            let m = &self.m;
            guarded(|| {
                let mut n = 0usize;
                for q in &uni {
                    let got = w.q1(slot, Q1::GetKeyValue, *q);
                    let exp = m.get(*q);
                    let same = match (got, exp) {
                        (None, None) => true,
                        (Some(a), Some(b)) => {
                            n += 1;
                            a.0.key() == b.0.key() && a.1 == b.1
                        }
                        _ => false,
                    };
                    if !same {
                        return Err((*q, got, exp));
                    }
                }
                if n != m.len() {
                    return Err((NO_EP, None, None));
                }
                Ok(())
            })
        };
        match res {
            Ok(Ok(())) => Flow::Continue,
            Ok(Err((q, got, exp))) => {
                let own = self.f.ret
                    || self.f.exact
                    || (self.f.child && matches!(op, Op::Retain(..) | Op::RemoveChildren(_)))
                    || (self.f.muta && wrote)
                    || (self.f.clone && matches!(op, Op::Replace(_)))
                    || (self.f.panic && injected)
                    || (self.f.child && injected && matches!(op, Op::Retain(..)))
                    || (self.f.repr && matches!(op, Op::ViewMut(_, VAct::Set(_))));
                if own {
                    let sig = if injected { "state-after-injected-panic".to_string() } else { format!("state/{}", op_name(op)) };
                    self.viol(ev, &sig, format!("after {:?}: get_key_value({:?}) = {:?}, model says {:?}", op, q, got, exp));
                    Flow::Stop
                } else if self.f.repr && self.host_bits_matter(op) {
                    self.viol(ev, &format!("repr/host-bits-change-behaviour/{}", op_name(op)), format!("{:?} leaves a state that differs from the model (get_key_value({:?}) = {:?}, model {:?}), while the same call with the host bits cleared behaves as the model says", op, q, got, exp));
                    Flow::Stop
                } else {
                    ev.count("foreign/state_diverged", 1);
                    self.resync(ev)
                }
            }
            Err(p) => self.on_panic(ev, &p, "get_key_value", self.f.exact),
        }
    }

    // -----------------------------------------------------------------------------------------
    // C01: exact-match observers
    // -----------------------------------------------------------------------------------------

    fn check_exact(&mut self, qs: &[EP]) -> Vec<(String, String)> {
        let mut bad = Vec::new();
        let slot = self.slot;
        for (qi, q) in qs.iter().enumerate() {
            if qi % 256 == 255 {
                beat("check/query sweep (next block of queries)");
            }
            let exp = self.m.get(*q);
            let ev_ = exp.map(|x| x.1);
            if self.is_set {
                let c = self.w.q1(slot, Q1::ContainsKey, *q).is_some();
                if c != exp.is_some() {
                    bad.push(("exact/set.contains".into(), format!("contains({:?}) = {}, model {:?}", q, c, exp)));
                }
                let g = self.w.q1(slot, Q1::Get, *q);
                if g.map(|x| x.0.key()) != exp.map(|x| x.0.key()) {
                    bad.push(("exact/set.get".into(), format!("get({:?}) = {:?}, model {:?}", q, g, exp)));
                }
            } else {
                for which in [Q1::Get, Q1::GetMut, Q1::EntryGet] {
                    let g = self.w.q1(slot, which, *q).map(|x| x.1);
                    if g != ev_ {
                        bad.push((format!("exact/{:?}", which), format!("{:?}({:?}) = {:?}, model {:?}", which, q, g, ev_)));
                    }
                }
                let c = self.w.q1(slot, Q1::ContainsKey, *q).is_some();
                if c != exp.is_some() {
                    bad.push(("exact/contains_key".into(), format!("contains_key({:?}) = {}, model {:?}", q, c, exp)));
                }
                let ek = self.w.q1(slot, Q1::EntryKey, *q).unwrap();
                if ek.0.key() != q.key() || (ek.1 == 1) != exp.is_some() {
                    bad.push(("exact/entry.key".into(), format!("entry({:?}).key() = {:?} occupied={}, model {:?}", q, ek.0, ek.1, exp)));
                }
            }
            if !bad.is_empty() {
                break;
            }
        }
        bad
    }

    // -----------------------------------------------------------------------------------------
    // C18: stored representation
    // -----------------------------------------------------------------------------------------

    fn check_repr(&mut self, qs: &[EP]) -> Vec<(String, String)> {
        let mut bad = Vec::new();
        let slot = self.slot;
        let set = self.is_set;
        macro_rules! chk {
            ($name:expr, $got:expr, $exp:expr, $q:expr) => {{
                let g: Option<EP> = $got;
                let e: Option<EP> = $exp;
                if g != e {
                    bad.push((format!("repr/{}", $name), format!("{}({:?}) reports representation {:?}, stored is {:?}", $name, $q, g, e)));
                }
            }};
        }
        for (qi, q) in qs.iter().enumerate() {
            if qi % 256 == 255 {
                beat("check/query sweep (next block of queries)");
            }
            let exp = self.m.get(*q).map(|x| x.0);
            chk!("get_key_value", self.w.q1(slot, Q1::GetKeyValue, *q).map(|x| x.0), exp, q);
            // a second host-bit pattern must give the same answer
            let q2 = self.g.host(q.canon());
            chk!("get_key_value/other-host-bits", self.w.q1(slot, Q1::GetKeyValue, q2).map(|x| x.0), exp, q2);
            if !set {
                let ek = self.w.q1(slot, Q1::EntryKey, *q).unwrap();
                chk!("entry.key", Some(ek.0), Some(exp.unwrap_or(*q)), q);
            }
            let l = self.m.lpm(*q).map(|x| x.0);
            chk!("get_lpm", self.w.q1(slot, Q1::GetLpm, *q).map(|x| x.0), l, q);
            chk!("get_lpm_prefix", self.w.q1(slot, Q1::GetLpmPrefix, *q).map(|x| x.0), l, q);
            let s = self.m.spm(*q).map(|x| x.0);
            chk!("get_spm", self.w.q1(slot, Q1::GetSpm, *q).map(|x| x.0), s, q);
            if !set {
                chk!("get_lpm_mut", self.w.q1(slot, Q1::GetLpmMut, *q).map(|x| x.0), l, q);
                chk!("get_spm_prefix", self.w.q1(slot, Q1::GetSpmPrefix, *q).map(|x| x.0), s, q);
            }
            let cov: Vec<EP> = self.m.cover(*q).iter().map(|x| x.0).collect();
            let got: Vec<EP> = self.w.ql(slot, QL::Cover, *q).items.iter().map(|x| x.0).collect();
            if got != cov {
                bad.push(("repr/cover".into(), format!("cover({:?}) reports {:?}, stored {:?}", q, got, cov)));
            }
            let ch: Vec<EP> = self.m.covered_by(*q).iter().map(|x| x.0).collect();
            let got: Vec<EP> = self.w.ql(slot, QL::Children, *q).items.iter().map(|x| x.0).collect();
            if got != ch {
                bad.push(("repr/children".into(), format!("children({:?}) reports {:?}, stored {:?}", q, got, ch)));
            }
            if !bad.is_empty() {
                return bad;
            }
        }
        // iterators
        let exp: Vec<EP> = self.m.entries().iter().map(|x| x.0).collect();
        for which in [Trav::Iter, Trav::Keys, Trav::IntoIter, Trav::RefIntoIter] {
            let got: Vec<EP> = self.w.trav(slot, which, None).items.iter().map(|x| x.0).collect();
            if got != exp {
                bad.push((format!("repr/{:?}", which), format!("{:?} reports {:?}, stored {:?}", which, got, exp)));
            }
        }
        // len must equal the number of distinct keys: two representations never make two entries
        if self.w.len(slot).0 != self.m.len() {
            bad.push(("repr/len".into(), format!("len() = {}, distinct keys {}", self.w.len(slot).0, self.m.len())));
        }
        bad
    }

    // -----------------------------------------------------------------------------------------
    // C02: longest prefix match
    // -----------------------------------------------------------------------------------------

    fn check_lpm(&mut self, qs: &[EP]) -> Vec<(String, String)> {
        let mut bad = Vec::new();
        let slot = self.slot;
        for (qi, q) in qs.iter().enumerate() {
            if qi % 256 == 255 {
                beat("check/query sweep (next block of queries)");
            }
            let exp = self.m.lpm(*q);
            let obs: Vec<(Q1, bool)> = if self.is_set { vec![(Q1::GetLpm, false)] } else { vec![(Q1::GetLpm, true), (Q1::GetLpmPrefix, false), (Q1::GetLpmMut, true)] };
            for (which, with_val) in obs {
                let g = self.w.q1(slot, which, *q);
                let same = match (g, exp) {
                    (None, None) => true,
                    (Some(a), Some(b)) => a.0.key() == b.0.key() && (!with_val || a.1 == b.1),
                    _ => false,
                };
                if !same {
                    let kind = match (g, exp) {
                        (None, Some(_)) => "missed",
                        (Some(_), None) => "spurious",
                        _ => "wrong",
                    };
                    bad.push((format!("lpm/{:?}/{}", which, kind), format!("{:?}({:?}) = {:?}, model {:?}", which, q, g, exp)));
                    return bad;
                }
            }
        }
        bad
    }

    // -----------------------------------------------------------------------------------------
    // C09: cover / spm
    // -----------------------------------------------------------------------------------------

    fn check_cover(&mut self, qs: &[EP]) -> Vec<(String, String)> {
        let mut bad = Vec::new();
        let slot = self.slot;
        for (qi, q) in qs.iter().enumerate() {
            if qi % 256 == 255 {
                beat("check/query sweep (next block of queries)");
            }
            let exp = self.m.cover(*q);
            let lists: Vec<QL> = if self.is_set { vec![QL::Cover] } else { vec![QL::Cover, QL::CoverKeys, QL::CoverValues] };
            for which in lists {
                let o = self.w.ql(slot, which, *q);
                let ok = o.items.len() == exp.len()
                    && o.items.iter().zip(&exp).all(|(a, b)| match which {
                        QL::Cover => a.0.key() == b.0.key() && (self.is_set || a.1 == b.1),
                        QL::CoverKeys => a.0.key() == b.0.key(),
                        _ => a.1 == b.1,
                    });
                if !ok || !o.fused || o.exceeded {
                    bad.push((format!("cover/{:?}{}", which, if !o.fused { "/not-fused" } else { "" }), format!("{:?}({:?}) = {:?} fused={}, model {:?}", which, q, o.items, o.fused, exp)));
                    return bad;
                }
                if which != QL::CoverValues && !o.items.windows(2).all(|w| w[0].0.len < w[1].0.len) {
                    bad.push(("cover/not-increasing".into(), format!("{:?}({:?}) lengths not strictly increasing: {:?}", which, q, o.items)));
                    return bad;
                }
                if self.g.rng.chance(1, 12) {
                    let (k, fin) = pick_fin(&mut self.g.rng, o.items.len());
                    crate::world::set_proto(k, fin);
                    let p = self.w.ql(slot, which, *q);
                    crate::world::clear_proto();
                    self.proto_n += 1;
                    if let Some(msg) = proto_eval(&p, &o.items) {
                        bad.push((format!("cover/{:?}/protocol/{}", which, fin_name(fin)), format!("{:?}({:?}): {}", which, q, msg)));
                        return bad;
                    }
                }
            }
            let first = exp.first().copied();
            let obs: Vec<(Q1, bool)> = if self.is_set { vec![(Q1::GetSpm, false)] } else { vec![(Q1::GetSpm, true), (Q1::GetSpmPrefix, false)] };
            for (which, with_val) in obs {
                let g = self.w.q1(slot, which, *q);
                let same = match (g, first) {
                    (None, None) => true,
                    (Some(a), Some(b)) => a.0.key() == b.0.key() && (!with_val || a.1 == b.1),
                    _ => false,
                };
                if !same {
                    bad.push((format!("spm/{:?}", which), format!("{:?}({:?}) = {:?}, first of cover is {:?}", which, q, g, first)));
                    return bad;
                }
            }
            // longest-prefix match is the last element
            let lpms: Vec<Q1> = if self.is_set { vec![Q1::GetLpm] } else { vec![Q1::GetLpm, Q1::GetLpmPrefix, Q1::GetLpmMut] };
            for which in lpms {
                let l = self.w.q1(slot, which, *q);
                if l.map(|x| x.0.key()) != exp.last().map(|x| x.0.key()) {
                    bad.push((format!("cover/lpm-not-last/{:?}", which), format!("{:?}({:?}) = {:?}, last of cover is {:?}", which, q, l, exp.last())));
                    return bad;
                }
            }
        }
        bad
    }

    // -----------------------------------------------------------------------------------------
    // C10: children
    // -----------------------------------------------------------------------------------------

    fn check_children(&mut self, qs: &[EP]) -> Vec<(String, String)> {
        let mut bad = Vec::new();
        let slot = self.slot;
        for (qi, q) in qs.iter().enumerate() {
            if qi % 256 == 255 {
                beat("check/query sweep (next block of queries)");
            }
            let exp = self.m.covered_by(*q);
            let lists: Vec<QL> = if self.is_set { vec![QL::Children] } else { vec![QL::Children, QL::ChildrenMut, QL::IntoChildren] };
            for which in lists {
                let o = self.w.ql(slot, which, *q);
                let ok = o.items.len() == exp.len() && o.items.iter().zip(&exp).all(|(a, b)| a.0.key() == b.0.key() && (self.is_set || a.1 == b.1));
                if !ok || !o.fused || o.exceeded {
                    bad.push((format!("children/{:?}{}", which, if !o.fused { "/not-fused" } else { "" }), format!("{:?}({:?}) = {:?} fused={}, model {:?}", which, q, o.items, o.fused, exp)));
                    return bad;
                }
                if let Some(rest) = &o.clone_rest {
                    let from = o.clone_at.min(o.items.len());
                    if rest[..] != o.items[from..] {
                        bad.push((format!("children/{:?}/clone", which), format!("cloned {:?}({:?}) continues with {:?}, original with {:?}", which, q, rest, &o.items[from..])));
                        return bad;
                    }
                }
                if self.g.rng.chance(1, 12) {
                    let (k, fin) = pick_fin(&mut self.g.rng, o.items.len());
                    crate::world::set_proto(k, fin);
                    let p = self.w.ql(slot, which, *q);
                    crate::world::clear_proto();
                    self.proto_n += 1;
                    if let Some(msg) = proto_eval(&p, &o.items) {
                        bad.push((format!("children/{:?}/protocol/{}", which, fin_name(fin)), format!("{:?}({:?}): {}", which, q, msg)));
                        return bad;
                    }
                }
            }
        }
        bad
    }

    // -----------------------------------------------------------------------------------------
    // C03: traversals
    // -----------------------------------------------------------------------------------------

    fn check_iter(&mut self) -> Vec<(String, String)> {
        let mut bad = Vec::new();
        let slot = self.slot;
        let exp = self.m.entries();
        let n = exp.len();
        let list: Vec<Trav> = if self.is_set {
            vec![Trav::Iter, Trav::IntoIter, Trav::RefIntoIter]
        } else {
            vec![Trav::Iter, Trav::Keys, Trav::Values, Trav::IterMut, Trav::ValuesMut, Trav::IntoIter, Trav::IntoKeys, Trav::IntoValues, Trav::RefIntoIter]
        };
        for which in list {
            let at = if n == 0 { Some(0) } else { Some(self.g.rng.below(n + 1)) };
            let o = self.w.trav(slot, which, at);
            let has_k = !matches!(which, Trav::Values | Trav::ValuesMut | Trav::IntoValues);
            let has_v = !self.is_set && !matches!(which, Trav::Keys | Trav::IntoKeys);
            let same = |a: &Item, b: &Item| (!has_k || a.0.key() == b.0.key()) && (!has_v || a.1 == b.1);
            if o.exceeded {
                bad.push((format!("iter/{:?}/diverges", which), format!("{:?} yields more items than nodes", which)));
                return bad;
            }
            if o.items.len() != n || !o.items.iter().zip(&exp).all(|(a, b)| same(a, b)) {
                let kind = if o.items.len() != n {
                    "count"
                } else {
                    "order-or-content"
                };
                bad.push((format!("iter/{:?}/{}", which, kind), format!("{:?} yields {:?}, model {:?}", which, o.items, exp)));
                return bad;
            }
            if !o.fused {
                bad.push((format!("iter/{:?}/not-fused", which), format!("{:?} yields items after returning None", which)));
                return bad;
            }
            if has_k {
                // strictly ascending (address, length): implies parent-before-covered and 0-branch first
                if !o.items.windows(2).all(|w| w[0].0.key() < w[1].0.key()) {
                    bad.push((format!("iter/{:?}/not-ascending", which), format!("{:?} not in lexicographic order: {:?}", which, o.items)));
                    return bad;
                }
            }
            if let Some(rest) = &o.clone_rest {
                let from = o.clone_at.min(n);
                if rest.len() != n - from || !rest.iter().zip(&exp[from..]).all(|(a, b)| same(a, b)) {
                    bad.push((format!("iter/{:?}/clone", which), format!("clone of {:?} taken after {} items yields {:?}", which, from, rest)));
                    return bad;
                }
            }
            // the other ways of consuming the iterator agree with plain next() calls
            let (k, fin) = pick_fin(&mut self.g.rng, n);
            crate::world::set_proto(k, fin);
            let p = self.w.trav(slot, which, None);
            crate::world::clear_proto();
            self.proto_n += 1;
            if let Some(msg) = proto_eval(&p, &o.items) {
                bad.push((format!("iter/{:?}/protocol/{}", which, fin_name(fin)), format!("{:?}: {}", which, msg)));
                return bad;
            }
        }
        bad
    }

    /// C13: every way of consuming a mutable traversal mirrors the plain read-only twin
    fn check_mut_protocol(&mut self, qs: &[EP]) -> Vec<(String, String)> {
        let mut bad = Vec::new();
        if self.is_set {
            return bad;
        }
        let slot = self.slot;
        for (mt, ro) in [(Trav::IterMut, Trav::Iter), (Trav::ValuesMut, Trav::Values)] {
            let full = self.w.trav(slot, ro, None).items;
            let (k, fin) = pick_fin(&mut self.g.rng, full.len());
            crate::world::set_proto(k, fin);
            let p = self.w.trav(slot, mt, None);
            crate::world::clear_proto();
            self.proto_n += 1;
            if let Some(msg) = proto_eval(&p, &full) {
                bad.push((format!("mut/mirror/{:?}/protocol/{}", mt, fin_name(fin)), format!("{:?} against {:?}: {}", mt, ro, msg)));
                return bad;
            }
        }
        for _ in 0..6.min(qs.len()) {
            let q = qs[self.g.rng.below(qs.len())];
            let full = self.w.ql(slot, QL::Children, q).items;
            let (k, fin) = pick_fin(&mut self.g.rng, full.len());
            crate::world::set_proto(k, fin);
            let p = self.w.ql(slot, QL::ChildrenMut, q);
            crate::world::clear_proto();
            self.proto_n += 1;
            if let Some(msg) = proto_eval(&p, &full) {
                bad.push((format!("mut/mirror/ChildrenMut/protocol/{}", fin_name(fin)), format!("children_mut({:?}) against children: {}", q, msg)));
                return bad;
            }
        }
        bad
    }

    // -----------------------------------------------------------------------------------------
    // C04: len
    // -----------------------------------------------------------------------------------------

    fn check_len(&mut self) -> Vec<(String, String)> {
        let mut bad = Vec::new();
        let (len, empty) = self.w.len(self.slot);
        let n = self.w.trav(self.slot, Trav::Iter, None).items.len();
        if len != n {
            let last = self.recent.back().cloned().unwrap_or_default();
            let site: String = last.split('(').next().unwrap_or("").to_string();
            bad.push((format!("len/drift/after={}", site), format!("len() = {} but iteration yields {} entries (after {})", len, n, last)));
        } else if empty != (n == 0) {
            bad.push(("len/is_empty".into(), format!("is_empty() = {} with {} entries", empty, n)));
        } else if self.step_no % 4 == 0 {
            // clone (alternately clone_from): the copy must be size-consistent as well
            self.w.copy(self.slot, self.scratch);
            let (cl, ce) = self.w.len(self.scratch);
            let cn = self.w.trav(self.scratch, Trav::Iter, None).items.len();
            if cl != cn || ce != (cn == 0) {
                bad.push(("len/clone".into(), format!("a clone reports len() = {} / is_empty() = {} but holds {} entries", cl, ce, cn)));
            }
        }
        bad
    }

    // -----------------------------------------------------------------------------------------
    // C11 / C12: views
    // -----------------------------------------------------------------------------------------

    fn check_views(&mut self, ev: &mut Ev, qs: &[EP], shape: &[ShapeNode]) -> Vec<(String, String)> {
        let mut bad = Vec::new();
        let slot = self.slot;
        let cmp = Cmp::Key;
        let want11 = self.f.view;
        let want12 = self.f.find;
        // a sample of queries for the second level (find from a sub-view)
        let mut inner: Vec<EP> = Vec::new();
        for _ in 0..6 {
            let k = self.g.hkey(&self.m);
            inner.push(k);
        }
        let mut progs: Vec<(ViewProg, bool)> = Vec::new();
        for (i, q) in qs.iter().enumerate() {
            let mutable = i % 2 == 1;
            if want11 {
                // view_at(q), then the complete left/right closure below it (bounded depth)
                progs.push((ViewProg { root: Some(*q), nav: vec![] }, mutable));
                let mut stack: Vec<Vec<Nav>> = vec![vec![]];
                let mut budget = 14;
                while let Some(navs) = stack.pop() {
                    if navs.len() >= 4 || budget == 0 {
                        continue;
                    }
                    budget -= 1;
                    for side in [false, true] {
                        let mut n2 = navs.clone();
                        n2.push(match (side, mutable && self.g.rng.chance(1, 2)) {
                            (false, false) => Nav::Left,
                            (true, false) => Nav::Right,
                            (false, true) => Nav::SplitL,
                            (true, true) => Nav::SplitR,
                        });
                        progs.push((ViewProg { root: Some(*q), nav: n2.clone() }, mutable));
                        // only descend where the model has entries (plus sometimes where it has none)
                        stack.push(n2);
                    }
                }
            }
            if want11 {
                // view_at / view_mut_at called on views (whole-map view, sub-view at q, its sides)
                for q2 in inner.iter().take(3).chain(std::iter::once(q)) {
                    progs.push((ViewProg { root: None, nav: vec![Nav::ViewAt(*q2)] }, mutable));
                    progs.push((ViewProg { root: Some(*q), nav: vec![Nav::ViewAt(*q2)] }, mutable));
                    progs.push((ViewProg { root: Some(*q), nav: vec![if i % 2 == 0 { Nav::Left } else { Nav::Right }, Nav::ViewAt(*q2)] }, mutable));
                }
            }
            if want12 {
                // from the whole-map view, from view_at(q), and from left/right of it: every kind of search
                for q2 in inner.iter().chain(std::iter::once(q)) {
                    for base in 0..3 {
                        let mut nav: Vec<Nav> = match base {
                            0 => vec![],
                            1 => vec![Nav::Left],
                            _ => vec![Nav::Right],
                        };
                        let which = self.g.rng.below(4);
                        nav.push(match which {
                            0 => Nav::Find(*q2),
                            1 => Nav::FindExact(*q2),
                            2 => Nav::FindLpm(*q2),
                            _ => Nav::ViewAt(*q2),
                        });
                        if self.g.rng.chance(1, 4) {
                            nav.push(Nav::FindLpm(inner[0]));
                        }
                        progs.push((ViewProg { root: Some(*q), nav }, mutable));
                    }
                }
                // searches from the root view
                let which = self.g.rng.below(3);
                progs.push((ViewProg { root: None, nav: vec![match which { 0 => Nav::Find(*q), 1 => Nav::FindExact(*q), _ => Nav::FindLpm(*q) }] }, mutable));
            }
        }
        // keep one step's cost bounded on the large universes of the wide types: a random subsample
        if self.g.w > 8 && progs.len() > 6000 {
            self.g.rng.shuffle(&mut progs);
            progs.truncate(6000);
            ev.count("view/program_lists_subsampled", 1);
        }
        for (pi, (prog, mutable)) in progs.into_iter().enumerate() {
            if pi % 64 == 0 {
                // this loop is oracle work, not one library call: tell the divergence detector it progresses
                beat("check/views (next block of view programs)");
            }
            let steps = self.w.view(slot, &prog, mutable);
            let c = check_view(&self.m, shape, &prog, &steps, mutable, want11, want12, self.canonical, cmp);
            ev.count("view/programs", 1);
            ev.count("view/steps_checked", c.steps_checked);
            ev.count("view/virtual_roots", c.virtual_roots);
            ev.count("view/nav_below_virtual", c.nav_below_virtual);
            if !c.bad.is_empty() {
                bad.extend(c.bad.into_iter().map(|(s, m)| (s, format!("{} [program {:?}]", m, prog))));
                return bad;
            }
        }
        bad
    }

    // -----------------------------------------------------------------------------------------
    // C15: shape
    // -----------------------------------------------------------------------------------------

    fn check_shape(&mut self, ev: &mut Ev, op: &Op, pre: &Model, pre_shape: &[ShapeNode], shape: &[ShapeNode]) -> Vec<(String, String)> {
        let mut bad = Vec::new();
        let w = self.g.w;
        // ---- well-formedness
        if shape.is_empty() || shape[0].prefix.len != 0 {
            bad.push(("shape/root".into(), format!("root is {:?}", shape.first().map(|n| n.prefix))));
            return bad;
        }
        for n in shape {
            for (c, right) in [(n.left, false), (n.right, true)] {
                if let Some(ci) = c {
                    let ch = &shape[ci];
                    let ok = ch.prefix.len > n.prefix.len && n.prefix.covers(ch.prefix) && bit(ch.prefix.bits, n.prefix.len) == right;
                    if !ok {
                        bad.push((format!("shape/child-misplaced/after={}", op_name(op)), format!("node {:?} has {} child {:?}", n.prefix, if right { "right" } else { "left" }, ch.prefix)));
                        return bad;
                    }
                }
            }
            if n.depth > w as usize {
                bad.push(("shape/too-deep".into(), format!("node {:?} at depth {}", n.prefix, n.depth)));
                return bad;
            }
            if n.prefix.len > w {
                bad.push(("shape/len".into(), format!("node {:?} longer than the width", n.prefix)));
                return bad;
            }
        }
        // entries of the shape = model keys
        let vk: Vec<Key> = shape.iter().filter(|n| n.has_value).map(|n| n.prefix.key()).collect();
        let mk: Vec<Key> = self.m.m.keys().copied().collect();
        let mut vks = vk.clone();
        vks.sort();
        if vks != mk {
            bad.push(("shape/valued-nodes".into(), format!("valued nodes {:?} differ from the stored keys {:?}", vk, mk)));
            return bad;
        }
        // ---- a view located by view_at / find is a well-formed sub-trie too: its prefix covers all it exposes
        for _ in 0..4 {
            let q = self.g.hkey(&self.m);
            let q2 = self.g.hkey(&self.m);
            let nav = match self.g.rng.below(3) {
                0 => vec![Nav::Find(q2)],
                1 => vec![Nav::Left, Nav::Find(q2)],
                _ => vec![Nav::Right, Nav::ViewAt(q2)],
            };
            let prog = ViewProg { root: Some(q), nav };
            let steps = self.w.view(self.slot, &prog, self.step_no % 2 == 0);
            if let Some(last) = steps.last() {
                if last.ok && !last.prefix.is_none() {
                    if let Some(e) = last.entries.iter().find(|(p, _)| !last.prefix.covers(*p)) {
                        bad.push(("shape/view-exposes-entry-outside-its-prefix".into(), format!("the view reached by {:?} has prefix {:?} but exposes {:?}", prog, last.prefix, e.0)));
                        return bad;
                    }
                }
            }
            ev.count("shape/located_view_checks", 1);
        }
        // ---- shape preservation by value-only operations
        let value_only = match op {
            Op::RemoveKeepTree(_) | Op::GetMutWrite(..) | Op::GetLpmMutWrite(..) | Op::MutTravWrite(..) | Op::ViewMut(..) => true,
            Op::Entry(p, _) => pre.contains(*p),
            Op::Insert(p, _) => pre_shape.iter().any(|n| n.prefix.key() == p.key()),
            _ => false,
        };
        if value_only {
            let a: Vec<(Key, Option<usize>, Option<usize>)> = pre_shape.iter().map(|n| (n.prefix.key(), n.left, n.right)).collect();
            let b: Vec<(Key, Option<usize>, Option<usize>)> = shape.iter().map(|n| (n.prefix.key(), n.left, n.right)).collect();
            if a != b {
                bad.push((format!("shape/changed-by-value-only-op/{}", op_name(op)), format!("{:?} changed the tree shape", op)));
                return bad;
            }
            ev.count("shape/preservation_checks", 1);
        }
        // ---- canonicity
        if self.canonical {
            let canon = canonical_shape(&mk);
            let got: Vec<(Key, bool)> = shape.iter().map(|n| (n.prefix.key(), n.has_value)).collect();
            if got != canon {
                bad.push((format!("shape/not-canonical/after={}", op_name(op)), format!("after {:?} the shape is {:?}, canonical is {:?}", op, got, canon)));
                return bad;
            }
            if let Some(n) = shape.iter().skip(1).find(|n| !n.has_value && (n.left.is_none() || n.right.is_none())) {
                bad.push((format!("shape/valueless-node-without-two-children/after={}", op_name(op)), format!("value-less node {:?} has fewer than two children", n.prefix)));
                return bad;
            }
            ev.count("shape/canonical_checks", 1);
            // compare with freshly built maps: sorted, reverse, shuffled (all permutations if <= 5 keys)
            if self.step_no % 4 == 0 || mk.len() <= 5 {
                let items: Vec<Item> = self.m.entries();
                let mut orders: Vec<Vec<Item>> = Vec::new();
                if items.len() <= 5 {
                    permutations(&items, &mut orders);
                } else {
                    orders.push(items.clone());
                    let mut r = items.clone();
                    r.reverse();
                    orders.push(r);
                    for _ in 0..3 {
                        let mut s = items.clone();
                        self.g.rng.shuffle(&mut s);
                        orders.push(s);
                    }
                }
                let sig = struct_sig(shape);
                for (i, o) in orders.iter().enumerate() {
                    let how = match i % 3 {
                        0 => ReplaceHow::FromList(o.clone()),
                        1 => ReplaceHow::InsertList(o.clone()),
                        _ => ReplaceHow::EntryList(o.clone()),
                    };
                    self.w.apply(self.scratch, &Op::Replace(how));
                    let fresh = self.w.shape(self.scratch);
                    if struct_sig(&fresh) != sig {
                        bad.push((format!("shape/differs-from-fresh-build/after={}", op_name(op)), format!("after {:?} the shape differs from a map freshly built from the surviving keys in order {:?}", op, o.iter().map(|x| x.0).collect::<Vec<_>>())));
                        return bad;
                    }
                    ev.count("shape/fresh_build_comparisons", 1);
                }
            }
            // remove reverts insert
            if let Op::Insert(p, _) = op {
                if !pre.contains(*p) {
                    self.w.copy(self.slot, self.scratch);
                    self.w.apply(self.scratch, &Op::Remove(*p));
                    let back = self.w.shape(self.scratch);
                    if struct_sig(&back) != struct_sig(pre_shape) {
                        bad.push(("shape/remove-does-not-revert-insert".into(), format!("insert({:?}) then remove does not restore the shape", p)));
                        return bad;
                    }
                    ev.count("shape/revert_checks", 1);
                }
            }
        }
        bad
    }

    // -----------------------------------------------------------------------------------------
    // C16: arena partition and bound
    // -----------------------------------------------------------------------------------------

    fn check_arena(&mut self, ev: &mut Ev, op: &Op, shape: &[ShapeNode]) -> Vec<(String, String)> {
        let mut bad = Vec::new();
        let a = self.w.arena(self.slot);
        let (reach, problems) = arena_partition(&a);
        if let Some(p) = problems {
            bad.push((format!("arena/{}/after={}", p.0, op_name(op)), format!("after {:?}: {}", op, p.1)));
            return bad;
        }
        if reach != shape.len() {
            bad.push(("arena/reachable-vs-view-walk".into(), format!("{} slots reachable in the arena, the view walk sees {} nodes", reach, shape.len())));
            return bad;
        }
        if matches!(op, Op::Clear) || matches!(op, Op::Replace(h) if !matches!(h, ReplaceHow::Clone)) || matches!(op, Op::RemoveChildren(p) if p.len == 0) {
            self.hw_reach = reach;
        }
        self.hw_reach = self.hw_reach.max(reach);
        ev.max("arena/max_len", a.arena_len as u64);
        ev.max("arena/max_free", a.free.len() as u64);
        if a.free.len() > 0 {
            ev.count("arena/steps_with_nonempty_free_list", 1);
        }
        if a.arena_len > 2 * self.hw_reach {
            bad.push((format!("arena/bound/after={}", op_name(op)), format!("arena holds {} slots but at most {} nodes were ever needed at one time", a.arena_len, self.hw_reach)));
            return bad;
        }
        if self.step_no % 4 == 0 {
            // a copy (alternately `clone` and `clone_from` into a map with its own history) must be a
            // sound arena as well
            self.w.copy(self.slot, self.scratch);
            let b = self.w.arena(self.scratch);
            if let Some(p) = arena_partition(&b).1 {
                bad.push((format!("arena/clone/{}", p.0), format!("a clone / clone_from copy of the map taken after {:?}: {}", op, p.1)));
                return bad;
            }
            ev.count("arena/clone_checks", 1);
        }
        if self.canonical && self.m.len() == 0 && matches!(op, Op::Remove(_)) && reach != 1 {
            bad.push(("arena/emptied-by-remove".into(), format!("map emptied by remove still has {} reachable nodes", reach)));
        }
        bad
    }

    // -----------------------------------------------------------------------------------------
    // C19 (in-history part): clone independence
    // -----------------------------------------------------------------------------------------

    fn check_clone(&mut self, ev: &mut Ev) -> Vec<(String, String)> {
        let mut bad = Vec::new();
        if self.step_no % 3 != 0 {
            return bad;
        }
        // clone into scratch; must be equal; mutate the clone; original unchanged
        self.w.copy(self.slot, self.scratch);
        let (e, ne) = self.w.eq(self.slot, self.scratch);
        if !e || ne {
            bad.push(("clone/not-equal".into(), format!("clone() is not equal to the original (==: {}, !=: {})", e, ne)));
            return bad;
        }
        let before = self.w.trav(self.slot, Trav::Iter, None).items;
        let mut m2 = self.m.clone();
        for _ in 0..4 {
            let op = self.g.op(&m2);
            if matches!(op, Op::Retain(_, Some(_))) || matches!(&op, Op::Entry(_, a) if a.iter().any(|x| matches!(x, EAct::AndModifyPanic | EAct::OrInsertWith(_, true, _) | EAct::VInsertWith(_, true, _)))) {
                continue;
            }
            let _ = self.w.apply(self.scratch, &op);
            // keep a rough model of the clone only to drive the generator
            if let Op::Insert(p, v) = &op {
                m2.insert(*p, *v);
            }
        }
        let after = self.w.trav(self.slot, Trav::Iter, None).items;
        if before != after {
            bad.push(("clone/not-independent".into(), "mutating a clone changed the original".to_string()));
            return bad;
        }
        ev.count("clone/independence_checks", 1);
        bad
    }
}

pub fn arena_partition(a: &Arena) -> (usize, Option<(String, String)>) {
    let n = a.arena_len;
    let mut state = vec![0u8; n]; // 1 = reachable, 2 = free
    if n == 0 || a.slots.len() != n {
        return (0, Some(("empty".into(), "arena has no root slot".into())));
    }
    let mut stack = vec![0usize];
    let mut reach = 0;
    while let Some(i) = stack.pop() {
        if i >= n {
            return (reach, Some(("child-out-of-range".into(), format!("child index {} out of range {}", i, n))));
        }
        if state[i] == 1 {
            return (reach, Some(("node-reachable-twice".into(), format!("slot {} is reachable along two paths", i))));
        }
        state[i] = 1;
        reach += 1;
        if let Some(l) = a.slots[i].0 {
            stack.push(l);
        }
        if let Some(r) = a.slots[i].1 {
            stack.push(r);
        }
    }
    for &f in &a.free {
        if f >= n {
            return (reach, Some(("free-out-of-range".into(), format!("free list holds {} but the arena has {} slots", f, n))));
        }
        if f == 0 {
            return (reach, Some(("root-in-free-list".into(), "slot 0 is in the free list".into())));
        }
        if state[f] == 1 {
            return (reach, Some(("slot-both-reachable-and-free".into(), format!("slot {} is part of the tree and in the free list", f))));
        }
        if state[f] == 2 {
            return (reach, Some(("slot-free-twice".into(), format!("slot {} is in the free list twice", f))));
        }
        state[f] = 2;
    }
    if let Some(i) = state.iter().position(|s| *s == 0) {
        let lost = state.iter().filter(|s| **s == 0).count();
        return (reach, Some(("slot-neither-reachable-nor-free".into(), format!("slot {} (and {} in total) is neither part of the tree nor available for reuse", i, lost))));
    }
    let valued = (0..n).filter(|i| state[*i] == 1 && a.slots[*i].2).count();
    if valued != a.count {
        // reported by C04, not here
    }
    (reach, None)
}

pub fn permutations(items: &[Item], out: &mut Vec<Vec<Item>>) {
    fn rec(cur: &mut Vec<Item>, rest: &mut Vec<Item>, out: &mut Vec<Vec<Item>>) {
        if rest.is_empty() {
            out.push(cur.clone());
            return;
        }
        for i in 0..rest.len() {
            let x = rest.remove(i);
            cur.push(x);
            rec(cur, rest, out);
            cur.pop();
            rest.insert(i, x);
        }
    }
    rec(&mut Vec::new(), &mut items.to_vec(), out);
}

pub fn shape_sig(s: &[ShapeNode]) -> u64 {
    let mut h = H::new();
    for n in s {
        h.ep(n.prefix.canon()).u(n.has_value as u64).u(n.left.map_or(0, |x| x as u64 + 1)).u(n.right.map_or(0, |x| x as u64 + 1));
    }
    h.get()
}

/// structure + has_value, ignoring stored host bits
pub fn struct_sig(s: &[ShapeNode]) -> u64 {
    shape_sig(s)
}

pub fn op_name(op: &Op) -> String {
    match op {
        Op::Insert(..) => "insert".into(),
        Op::Remove(_) => "remove".into(),
        Op::RemoveKeepTree(_) => "remove_keep_tree".into(),
        Op::RemoveChildren(_) => "remove_children".into(),
        Op::Clear => "clear".into(),
        Op::Retain(_, None) => "retain".into(),
        Op::Retain(_, Some(_)) => "retain+panic".into(),
        Op::Entry(_, acts) => {
            let last = acts.iter().rev().find(|a| !matches!(a, EAct::Get | EAct::Key | EAct::VKey | EAct::OKey | EAct::OGet));
            format!("entry.{}", match last {
                None => "observe",
                Some(EAct::Insert(_)) => "insert",
                Some(EAct::OrInsert(..)) => "or_insert",
                Some(EAct::OrInsertWith(..)) => "or_insert_with",
                Some(EAct::OrDefault(_)) => "or_default",
                Some(EAct::AndModify(_)) | Some(EAct::AndModifyPanic) => "and_modify",
                Some(EAct::GetMutWrite(_)) => "get_mut",
                Some(EAct::Match) => "match",
                Some(EAct::VInsert(..)) | Some(EAct::OInsert(_)) => "variant.insert",
                Some(EAct::VInsertWith(..)) => "vacant.insert_with",
                Some(EAct::VDefault(_)) => "vacant.default",
                Some(EAct::OGetMutWrite(_)) => "occupied.get_mut",
                Some(EAct::ORemove) => "occupied.remove",
                _ => "other",
            })
        }
        Op::GetMutWrite(..) => "get_mut".into(),
        Op::GetLpmMutWrite(..) => "get_lpm_mut".into(),
        Op::MutTravWrite(w, ..) => format!("{:?}", w),
        Op::ViewMut(_, a) => format!("view_mut.{}", match a {
            VAct::None => "observe",
            VAct::ValueMutWrite(_) => "value_mut",
            VAct::PrefixValueMutWrite(_) => "prefix_value_mut",
            VAct::Set(_) => "set",
            VAct::Remove => "remove",
            VAct::IterMutWrite(..) => "iter_mut",
            VAct::ValuesMutWrite(..) => "values_mut",
            VAct::IntoIterWrite(..) => "into_iter",
            VAct::ReborrowThenWrite(_) => "reborrow",
        }),
        Op::Replace(h) => format!("replace.{}", match h {
            ReplaceHow::Clone => "clone",
            ReplaceHow::IntoIterCollect => "into_iter_collect",
            ReplaceHow::CollectShuffled(_) => "collect",
            ReplaceHow::Serde => "serde",
            ReplaceHow::FromList(_) => "from_iter",
            ReplaceHow::InsertList(_) => "insert_list",
            ReplaceHow::EntryList(_) => "entry_list",
        }),
    }
}

pub fn op_key(op: &Op) -> Option<EP> {
    match op {
        Op::Insert(p, _) | Op::Remove(p) | Op::RemoveKeepTree(p) | Op::RemoveChildren(p) | Op::Entry(p, _) | Op::GetMutWrite(p, _) | Op::GetLpmMutWrite(p, _) | Op::MutTravWrite(_, p, _, _) => Some(*p),
        Op::ViewMut(prog, _) => prog.root,
        _ => None,
    }
}

pub fn is_write_op(op: &Op) -> bool {
    match op {
        Op::GetMutWrite(..) | Op::GetLpmMutWrite(..) | Op::MutTravWrite(..) => true,
        Op::ViewMut(_, a) => matches!(a, VAct::ValueMutWrite(_) | VAct::PrefixValueMutWrite(_) | VAct::IterMutWrite(..) | VAct::ValuesMutWrite(..) | VAct::IntoIterWrite(..) | VAct::ReborrowThenWrite(_)),
        _ => false,
    }
}

/// the same operation with the host bits of every prefix argument cleared
pub fn canon_op(op: &Op) -> Op {
    fn cn(n: &Nav) -> Nav {
        match n {
            Nav::Find(q) => Nav::Find(q.canon()),
            Nav::FindExact(q) => Nav::FindExact(q.canon()),
            Nav::FindLpm(q) => Nav::FindLpm(q.canon()),
            Nav::ViewAt(q) => Nav::ViewAt(q.canon()),
            x => x.clone(),
        }
    }
    match op {
        Op::Insert(p, v) => Op::Insert(p.canon(), *v),
        Op::Remove(p) => Op::Remove(p.canon()),
        Op::RemoveKeepTree(p) => Op::RemoveKeepTree(p.canon()),
        Op::RemoveChildren(p) => Op::RemoveChildren(p.canon()),
        Op::Entry(p, a) => Op::Entry(p.canon(), a.clone()),
        Op::GetMutWrite(p, v) => Op::GetMutWrite(p.canon(), *v),
        Op::GetLpmMutWrite(p, v) => Op::GetLpmMutWrite(p.canon(), *v),
        Op::MutTravWrite(w, p, b, pat) => Op::MutTravWrite(*w, p.canon(), *b, *pat),
        Op::ViewMut(prog, act) => Op::ViewMut(ViewProg { root: prog.root.map(|q| q.canon()), nav: prog.nav.iter().map(cn).collect() }, act.clone()),
        x => x.clone(),
    }
}


// ---------------------------------------------------------------------------------------------
// iterator protocol: k items by next(), then a finisher; judged against the plain next() sequence
// ---------------------------------------------------------------------------------------------

pub fn pick_fin(rng: &mut Rng, n: usize) -> (usize, Fin) {
    let k = rng.below(n + 2);
    let fin = match rng.below(8) {
        7 => Fin::Drop,
        0 | 1 => Fin::Fold,
        2 => Fin::ForEach,
        3 => Fin::Collect,
        4 => Fin::Last,
        5 => Fin::Count,
        _ => Fin::Nth(rng.below(4)),
    };
    (k, fin)
}

pub fn fin_name(f: Fin) -> &'static str {
    match f {
        Fin::Fold => "fold",
        Fin::ForEach => "for_each",
        Fin::Collect => "collect",
        Fin::Last => "last",
        Fin::Count => "count",
        Fin::Nth(_) => "nth",
        Fin::Drop => "drop",
    }
}

/// `full`: what the same iterator yields through plain `next()` calls
pub fn proto_eval(p: &ListObs, full: &[Item]) -> Option<String> {
    let po = match &p.proto {
        Some(po) => po,
        None => return Some("HARNESS: traversal did not run in protocol mode".into()),
    };
    let n = full.len();
    let head = po.k.min(n);
    if po.head != head || p.items.len() < head || p.items[..head] != full[..head] {
        return Some(format!("first {} next() calls gave {:?}, a plain traversal gives {:?}", po.k, &p.items[..po.head.min(p.items.len())], full));
    }
    for (y, lo, hi) in &po.hints {
        let rem = n.saturating_sub(*y);
        if *lo > rem || hi.map_or(false, |h| h < rem) {
            return Some(format!("size_hint() = ({}, {:?}) after {} items, but {} more items follow", lo, hi, y, rem));
        }
    }
    let rem = &full[head..];
    match po.fin {
        Fin::Fold | Fin::ForEach | Fin::Collect => {
            if p.items[..] != full[..] {
                return Some(format!("{} next() calls then {:?} visit {:?}, plain next() calls visit {:?}", po.k, po.fin, p.items, full));
            }
        }
        Fin::Last => {
            if po.last != Some(rem.last().copied()) {
                return Some(format!("{} next() calls then last() = {:?}, plain traversal ends with {:?} (all: {:?})", po.k, po.last, rem.last(), full));
            }
        }
        Fin::Drop => {}
        Fin::Count => {
            if po.count != Some(rem.len()) {
                return Some(format!("{} next() calls then count() = {:?}, {} items remain", po.k, po.count, rem.len()));
            }
        }
        Fin::Nth(j) => {
            let exp_rest: &[Item] = if j < rem.len() { &rem[j + 1..] } else { &[] };
            if po.nth != Some(rem.get(j).copied()) || p.items[head..] != exp_rest[..] || !p.fused {
                return Some(format!("{} next() calls then nth({}) = {:?} followed by {:?} (fused={}); plain traversal: {:?}", po.k, j, po.nth, &p.items[head..], p.fused, full));
            }
        }
    }
    None
}
