#!/bin/bash
# usage: run1.sh <bin> args...   -> summarises a PTV-RESULT line
"$@" 2>&1 | python3 -c "
import sys,json
for l in sys.stdin:
    if l.startswith('PTV-RESULT'):
        d=json.loads(l[11:]); print('evals',d['evaluations'],'hashes',len(d['hashes']),'inconcl',d['inconclusive'],d['inconclusive_reasons'])
        for v in d['violations']: print('VIOL',v['sig'],'|',v['msg'][:400])
        print({k:v for k,v in d['counters'].items() if not k.startswith('op/') and not k.startswith('states/')})
    else: print(l.rstrip()[:300])
"
