#!/bin/bash
set -e
cd /verif/harness && CARGO_NET_OFFLINE=true cargo build --offline
