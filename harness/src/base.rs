//! Erased prefix type, pure-integer prefix algebra, RNG and hashing helpers.
//!
//! Nothing in this file calls into `prefix_trie`. All prefixes are held *left-aligned* in a
//! `u128` (bit 127 is the first bit of the address), so masks do not depend on the width of the
//! concrete representation.

use std::fmt;

/// An erased prefix: left-aligned address bits (possibly with host bits set) and a length.
#[derive(Clone, Copy, PartialEq, Eq, Hash, PartialOrd, Ord)]
pub struct EP {
    pub bits: u128,
    pub len: u8,
}

pub const NO_EP: EP = EP { bits: 0, len: 255 };
pub const NO_VAL: u64 = u64::MAX;

impl fmt::Debug for EP {
    fn fmt(&self, f: &mut fmt::Formatter<'_>) -> fmt::Result {
        if self.len == 255 {
            return write!(f, "-");
        }
        // print the network bits for short prefixes, hex otherwise
        if self.len <= 16 {
            let mut s = String::new();
            for i in 0..self.len {
                s.push(if bit(self.bits, i) { '1' } else { '0' });
            }
            let host = self.bits & !mask(self.len);
            if host != 0 {
                write!(f, "{}/{}+h{:x}", s, self.len, host >> 64)
            } else {
                write!(f, "{}/{}", s, self.len)
            }
        } else {
            write!(f, "{:032x}/{}", self.bits, self.len)
        }
    }
}

/// Mask with the `len` leading bits set.
#[inline]
pub fn mask(len: u8) -> u128 {
    if len == 0 {
        0
    } else if len >= 128 {
        !0
    } else {
        !(!0u128 >> len)
    }
}

/// The i-th leading bit (0 = most significant).
#[inline]
pub fn bit(bits: u128, i: u8) -> bool {
    if i >= 128 {
        false
    } else {
        (bits >> (127 - i)) & 1 == 1
    }
}

pub type Key = (u128, u8);

impl EP {
    #[inline]
    pub fn new(bits: u128, len: u8) -> EP {
        EP { bits, len }
    }
    /// network part
    #[inline]
    pub fn net(self) -> u128 {
        self.bits & mask(self.len)
    }
    #[inline]
    pub fn key(self) -> Key {
        (self.net(), self.len)
    }
    #[inline]
    pub fn canon(self) -> EP {
        EP { bits: self.net(), len: self.len }
    }
    /// `self` covers `o` (equal counts)
    #[inline]
    pub fn covers(self, o: EP) -> bool {
        self.len <= o.len && (o.bits & mask(self.len)) == self.net()
    }
    pub fn is_none(self) -> bool {
        self.len == 255
    }
}

#[inline]
pub fn key_covers(a: Key, b: Key) -> bool {
    a.1 <= b.1 && (b.0 & mask(a.1)) == a.0
}

/// longest common prefix of two keys (network form)
pub fn lcp(a: Key, b: Key) -> Key {
    let x = a.0 ^ b.0;
    let eq = x.leading_zeros().min(128) as u8;
    let l = eq.min(a.1).min(b.1);
    (a.0 & mask(l), l)
}

/// A (prefix, value) observation in erased form; missing halves use NO_EP / NO_VAL.
pub type Item = (EP, u64);

// ---------------------------------------------------------------------------------------------
// RNG: SplitMix64
// ---------------------------------------------------------------------------------------------

#[derive(Clone)]
pub struct Rng(pub u64);

impl Rng {
    pub fn new(seed: u64) -> Self {
        Rng(seed ^ 0x9E37_79B9_7F4A_7C15)
    }
    pub fn from_parts(parts: &[u64]) -> Self {
        let mut h = 0xcbf2_9ce4_8422_2325u64;
        for p in parts {
            h = mix(h ^ *p);
        }
        Rng(h)
    }
    #[inline]
    pub fn next(&mut self) -> u64 {
        self.0 = self.0.wrapping_add(0x9E37_79B9_7F4A_7C15);
        let mut z = self.0;
        z = (z ^ (z >> 30)).wrapping_mul(0xBF58_476D_1CE4_E5B9);
        z = (z ^ (z >> 27)).wrapping_mul(0x94D0_49BB_1331_11EB);
        z ^ (z >> 31)
    }
    #[inline]
    pub fn u128(&mut self) -> u128 {
        ((self.next() as u128) << 64) | self.next() as u128
    }
    #[inline]
    pub fn below(&mut self, n: usize) -> usize {
        if n == 0 {
            0
        } else {
            (self.next() % n as u64) as usize
        }
    }
    #[inline]
    pub fn chance(&mut self, num: u32, den: u32) -> bool {
        (self.next() % den as u64) < num as u64
    }
    pub fn pick<'a, T>(&mut self, v: &'a [T]) -> &'a T {
        &v[self.below(v.len())]
    }
    pub fn shuffle<T>(&mut self, v: &mut [T]) {
        for i in (1..v.len()).rev() {
            let j = self.below(i + 1);
            v.swap(i, j);
        }
    }
}

#[inline]
pub fn mix(mut z: u64) -> u64 {
    z = z.wrapping_add(0x9E37_79B9_7F4A_7C15);
    z = (z ^ (z >> 30)).wrapping_mul(0xBF58_476D_1CE4_E5B9);
    z = (z ^ (z >> 27)).wrapping_mul(0x94D0_49BB_1331_11EB);
    z ^ (z >> 31)
}

/// Order-sensitive hasher for state signatures.
#[derive(Clone, Copy)]
pub struct H(pub u64);
impl H {
    pub fn new() -> H {
        H(0x1234_5678_9abc_def1)
    }
    #[inline]
    pub fn u(&mut self, x: u64) -> &mut Self {
        self.0 = mix(self.0 ^ x).rotate_left(17) ^ x.wrapping_mul(0x2545_F491_4F6C_DD1D);
        self
    }
    #[inline]
    pub fn ep(&mut self, e: EP) -> &mut Self {
        self.u((e.bits >> 64) as u64).u(e.bits as u64).u(e.len as u64)
    }
    pub fn s(&mut self, s: &str) -> &mut Self {
        for b in s.bytes() {
            self.u(b as u64);
        }
        self
    }
    pub fn get(&self) -> u64 {
        mix(self.0)
    }
}

// ---------------------------------------------------------------------------------------------
// Universes
// ---------------------------------------------------------------------------------------------

/// The query universe (network-form prefixes) for a representation of `w` bits.
/// `w == 8`: complete (511 prefixes). Otherwise the sparse boundary-biased universe of DESIGN 2.2.
pub fn universe(w: u8, maxlen: Option<u8>) -> Vec<EP> {
    let mut out = Vec::new();
    if w == 8 {
        let ml = maxlen.unwrap_or(8);
        for len in 0..=ml {
            for a in 0..(1u32 << len) {
                let bits = if len == 0 { 0 } else { (a as u128) << (128 - len as u32) };
                out.push(EP::new(bits, len));
            }
        }
        return out;
    }
    let lens: Vec<u8> = {
        let mut l = vec![0, 1, 2, 3, w / 2 - 1, w / 2, w / 2 + 1, w - 2, w - 1, w];
        l.sort();
        l.dedup();
        l
    };
    let pos: Vec<u8> = {
        let mut p = vec![0, 1, 2, w / 2 - 1, w / 2, w - 2, w - 1];
        p.sort();
        p.dedup();
        p
    };
    let mut set = std::collections::BTreeSet::new();
    for &len in &lens {
        // the bit positions that are inside the network part
        let inside: Vec<u8> = pos.iter().copied().filter(|&p| p < len).collect();
        let n = inside.len();
        for m in 0..(1u32 << n) {
            let mut bits = 0u128;
            for (i, &p) in inside.iter().enumerate() {
                if (m >> i) & 1 == 1 {
                    bits |= 1u128 << (127 - p);
                }
            }
            set.insert((bits, len));
        }
    }
    for (bits, len) in set {
        out.push(EP::new(bits, len));
    }
    out
}

/// The "spine" of a wide type: every ancestor (all lengths 0..=w) of one fixed full-length key,
/// so that a trie over a wide type can hold a path with one node per length (depth-dependent
/// behaviour: anything that counts, bounds or recurses along a path of up to w+1 nodes).
pub fn spine(w: u8) -> Vec<EP> {
    let leaf = 0x5A3C_96E1_0F78_B4D2_5A3C_96E1_0F78_B4D2u128 & mask(w);
    (0..=w).map(|l| EP::new(leaf, l).canon()).collect()
}

/// sparse universe of a wide type plus the spine and the siblings that branch off it
pub fn universe_with_spine(w: u8, maxlen: Option<u8>) -> Vec<EP> {
    let mut out = universe(w, maxlen);
    if w == 8 || maxlen.is_some() {
        return out;
    }
    let mut have: std::collections::BTreeSet<(u128, u8)> = out.iter().map(|e| e.key()).collect();
    for s in spine(w) {
        let mut add = vec![s];
        if s.len > 0 {
            add.push(EP::new(s.bits ^ (1u128 << (128 - s.len as u32)), s.len));
        }
        for e in add {
            if have.insert(e.key()) {
                out.push(e);
            }
        }
    }
    out
}

/// random host bits for a prefix of a `w`-bit representation
pub fn with_host(e: EP, w: u8, rng: &mut Rng) -> EP {
    let wm = mask(w);
    let host = rng.u128() & wm & !mask(e.len);
    // bias: often no host bits, sometimes all
    let host = match rng.below(4) {
        0 => 0,
        1 => wm & !mask(e.len),
        _ => host,
    };
    EP::new(e.net() | host, e.len)
}

/// A random universe for a wide type: `target` prefixes with random lengths and addresses drawn
/// around a few cluster addresses, closed (loosely) under the relations the generators care
/// about (parent, child, sibling, longest common prefix), so that mid-range lengths, arbitrary bit
/// positions and octet/word boundaries occur, which the fixed sparse universe never has.
pub fn universe_random(w: u8, rng: &mut Rng, target: usize) -> Vec<EP> {
    let wm = mask(w);
    let mut set: std::collections::BTreeSet<(u128, u8)> = std::collections::BTreeSet::new();
    let add = |set: &mut std::collections::BTreeSet<(u128, u8)>, bits: u128, len: u8| {
        let e = EP::new(bits & wm, len.min(w)).canon();
        set.insert(e.key());
    };
    add(&mut set, 0, 0);
    add(&mut set, 0, 1);
    add(&mut set, 1u128 << 127, 1);
    add(&mut set, wm, w);
    add(&mut set, 0, w);
    let nclusters = 2 + rng.below(6);
    let clusters: Vec<u128> = (0..nclusters)
        .map(|i| match i {
            0 => wm,                              // all ones
            1 => mask(w - w / 4) & !mask(w / 4),     // bits set only in the middle of the address
            _ => rng.u128() & wm,
        })
        .collect();
    let boundary: Vec<u8> = [7u8, 8, 9, 15, 16, 17, 23, 24, 25, 31, 32, 33, 47, 48, 63, 64, 65, 95, 96, 97, 127, 128].iter().copied().filter(|l| *l <= w).collect();
    let mut guard = 0;
    while set.len() < target && guard < target * 40 {
        guard += 1;
        let c = clusters[rng.below(clusters.len())];
        // differ from the cluster address only below a random bit position
        let keep = rng.below(w as usize + 1) as u32;
        let low = if keep >= 128 { 0 } else { u128::MAX >> keep };
        let leaf = (c ^ (rng.u128() & low)) & wm;
        let nl = 1 + rng.below(4);
        for _ in 0..nl {
            let len = if rng.chance(1, 3) && !boundary.is_empty() { boundary[rng.below(boundary.len())] } else { rng.below(w as usize + 1) as u8 };
            add(&mut set, leaf, len);
            if len > 0 && rng.chance(1, 2) {
                add(&mut set, leaf ^ (1u128 << (128 - len as u32)), len);
            }
            if len > 0 && rng.chance(1, 3) {
                add(&mut set, leaf, len - 1);
            }
            if len < w && rng.chance(1, 4) {
                add(&mut set, leaf, len + 1);
            }
        }
        if set.len() >= 2 && rng.chance(1, 3) {
            let v: Vec<(u128, u8)> = {
                let n = set.len();
                let i = rng.below(n);
                let j = rng.below(n);
                vec![*set.iter().nth(i).unwrap(), *set.iter().nth(j).unwrap()]
            };
            let l = lcp(v[0], v[1]);
            set.insert(l);
        }
    }
    // close under longest common prefix: every branching node a trie over these keys can have is a
    // member (views can store values there, and the state sweep must see every stored key)
    loop {
        let v: Vec<(u128, u8)> = set.iter().copied().collect();
        let before = set.len();
        for w2 in v.windows(2) {
            set.insert(lcp(w2[0], w2[1]));
        }
        if set.len() == before {
            break;
        }
    }
    set.into_iter().map(|(b, l)| EP::new(b, l)).collect()
}

/// every pairwise longest common prefix of members is a member (test helper for universes)
pub fn lcp_closed(u: &[EP]) -> bool {
    let keys: std::collections::BTreeSet<(u128, u8)> = u.iter().map(|e| e.key()).collect();
    let v: Vec<(u128, u8)> = keys.iter().copied().collect();
    for i in 0..v.len() {
        for j in (i + 1)..v.len() {
            if !keys.contains(&lcp(v[i], v[j])) {
                return false;
            }
        }
    }
    true
}
