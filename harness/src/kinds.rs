//! Prefix kinds: one per shipped `Prefix` implementation. Encoding/decoding between the erased
//! `EP` and the concrete type uses the concrete type's *own* constructors/accessors, never the
//! `Prefix` trait (so the trait impls stay under test).

use crate::base::*;
use prefix_trie::Prefix;
use std::net::{Ipv4Addr, Ipv6Addr};

pub trait Kind: 'static {
    type P: Prefix + Clone + PartialEq + Eq + std::hash::Hash + std::fmt::Debug + Send + Sync + 'static;
    const NAME: &'static str;
    /// width of the representation in bits
    const W: u8;
    /// whether the type can hold host bits
    const KEEPS_HOST: bool;
    fn mk(e: EP) -> Self::P;
    fn dec(p: &Self::P) -> EP;
    /// right-aligned integer (as u128) -> P::R
    fn r_from(x: u128) -> <Self::P as Prefix>::R;
    fn r_to(r: <Self::P as Prefix>::R) -> u128;
}

#[inline]
fn ra(bits: u128, w: u8) -> u128 {
    // left-aligned -> right-aligned integer of width w
    if w == 128 {
        bits
    } else {
        bits >> (128 - w as u32)
    }
}
#[inline]
fn la(x: u128, w: u8) -> u128 {
    if w == 128 {
        x
    } else {
        x << (128 - w as u32)
    }
}

macro_rules! tuple_kind {
    ($name:ident, $t:ty, $w:expr, $s:expr) => {
        pub struct $name;
        impl Kind for $name {
            type P = ($t, u8);
            const NAME: &'static str = $s;
            const W: u8 = $w;
            const KEEPS_HOST: bool = true;
            fn mk(e: EP) -> Self::P {
                (ra(e.bits, $w) as $t, e.len)
            }
            fn dec(p: &Self::P) -> EP {
                EP::new(la(p.0 as u128, $w), p.1)
            }
            fn r_from(x: u128) -> $t {
                x as $t
            }
            fn r_to(r: $t) -> u128 {
                r as u128
            }
        }
    };
}

tuple_kind!(K8, u8, 8, "u8");
tuple_kind!(K16, u16, 16, "u16");
tuple_kind!(K32, u32, 32, "u32");
tuple_kind!(K64, u64, 64, "u64");
tuple_kind!(K128, u128, 128, "u128");
tuple_kind!(KUsize, usize, 64, "usize");

macro_rules! ip_kind {
    ($name:ident, $p:ty, $w:expr, $s:expr, $keeps:expr, $int:ty, $addr:ty, $mk:expr, $addr_of:expr, $len_of:expr) => {
        pub struct $name;
        impl Kind for $name {
            type P = $p;
            const NAME: &'static str = $s;
            const W: u8 = $w;
            const KEEPS_HOST: bool = $keeps;
            fn mk(e: EP) -> Self::P {
                let e = if $keeps { e } else { e.canon() };
                let a: $addr = <$addr>::from(ra(e.bits, $w) as $int);
                ($mk)(a, e.len)
            }
            fn dec(p: &Self::P) -> EP {
                let a: $addr = ($addr_of)(p);
                let x: $int = a.into();
                EP::new(la(x as u128, $w), ($len_of)(p))
            }
            fn r_from(x: u128) -> $int {
                x as $int
            }
            fn r_to(r: $int) -> u128 {
                r as u128
            }
        }
    };
}

ip_kind!(KIpv4Net, ipnet::Ipv4Net, 32, "Ipv4Net", true, u32, Ipv4Addr,
    |a, l| ipnet::Ipv4Net::new(a, l).unwrap(), |p: &ipnet::Ipv4Net| p.addr(), |p: &ipnet::Ipv4Net| p.prefix_len());
ip_kind!(KIpv6Net, ipnet::Ipv6Net, 128, "Ipv6Net", true, u128, Ipv6Addr,
    |a, l| ipnet::Ipv6Net::new(a, l).unwrap(), |p: &ipnet::Ipv6Net| p.addr(), |p: &ipnet::Ipv6Net| p.prefix_len());
ip_kind!(KIpv4Network, ipnetwork::Ipv4Network, 32, "Ipv4Network", true, u32, Ipv4Addr,
    |a, l| ipnetwork::Ipv4Network::new(a, l).unwrap(), |p: &ipnetwork::Ipv4Network| p.ip(), |p: &ipnetwork::Ipv4Network| p.prefix());
ip_kind!(KIpv6Network, ipnetwork::Ipv6Network, 128, "Ipv6Network", true, u128, Ipv6Addr,
    |a, l| ipnetwork::Ipv6Network::new(a, l).unwrap(), |p: &ipnetwork::Ipv6Network| p.ip(), |p: &ipnetwork::Ipv6Network| p.prefix());
ip_kind!(KIpv4Cidr, cidr::Ipv4Cidr, 32, "Ipv4Cidr", false, u32, Ipv4Addr,
    |a, l| cidr::Ipv4Cidr::new(a, l).unwrap(), |p: &cidr::Ipv4Cidr| p.first_address(), |p: &cidr::Ipv4Cidr| p.network_length());
ip_kind!(KIpv6Cidr, cidr::Ipv6Cidr, 128, "Ipv6Cidr", false, u128, Ipv6Addr,
    |a, l| cidr::Ipv6Cidr::new(a, l).unwrap(), |p: &cidr::Ipv6Cidr| p.first_address(), |p: &cidr::Ipv6Cidr| p.network_length());
ip_kind!(KIpv4Inet, cidr::Ipv4Inet, 32, "Ipv4Inet", true, u32, Ipv4Addr,
    |a, l| cidr::Ipv4Inet::new(a, l).unwrap(), |p: &cidr::Ipv4Inet| p.address(), |p: &cidr::Ipv4Inet| p.network_length());
ip_kind!(KIpv6Inet, cidr::Ipv6Inet, 128, "Ipv6Inet", true, u128, Ipv6Addr,
    |a, l| cidr::Ipv6Inet::new(a, l).unwrap(), |p: &cidr::Ipv6Inet| p.address(), |p: &cidr::Ipv6Inet| p.network_length());

pub const ALL_KINDS: &[&str] = &[
    "u8", "u16", "u32", "u64", "u128", "usize", "Ipv4Net", "Ipv6Net", "Ipv4Network", "Ipv6Network",
    "Ipv4Cidr", "Ipv6Cidr", "Ipv4Inet", "Ipv6Inet",
];

/// width / keeps-host facts by name (erased side)
pub fn kind_facts(name: &str) -> (u8, bool) {
    match name {
        "u8" => (8, true),
        "u16" => (16, true),
        "u32" => (32, true),
        "u64" | "usize" => (64, true),
        "u128" => (128, true),
        "Ipv4Net" | "Ipv4Network" | "Ipv4Inet" => (32, true),
        "Ipv6Net" | "Ipv6Network" | "Ipv6Inet" => (128, true),
        "Ipv4Cidr" => (32, false),
        "Ipv6Cidr" => (128, false),
        _ => panic!("unknown kind {name}"),
    }
}

/// dispatch a generic function over the kind named `$name`
#[macro_export]
macro_rules! with_kind {
    ($name:expr, $f:ident $(, $arg:expr)*) => {
        match $name {
            "u8" => $f::<$crate::kinds::K8>($($arg),*),
            "u16" => $f::<$crate::kinds::K16>($($arg),*),
            "u32" => $f::<$crate::kinds::K32>($($arg),*),
            "u64" => $f::<$crate::kinds::K64>($($arg),*),
            "u128" => $f::<$crate::kinds::K128>($($arg),*),
            "usize" => $f::<$crate::kinds::KUsize>($($arg),*),
            "Ipv4Net" => $f::<$crate::kinds::KIpv4Net>($($arg),*),
            "Ipv6Net" => $f::<$crate::kinds::KIpv6Net>($($arg),*),
            "Ipv4Network" => $f::<$crate::kinds::KIpv4Network>($($arg),*),
            "Ipv6Network" => $f::<$crate::kinds::KIpv6Network>($($arg),*),
            "Ipv4Cidr" => $f::<$crate::kinds::KIpv4Cidr>($($arg),*),
            "Ipv6Cidr" => $f::<$crate::kinds::KIpv6Cidr>($($arg),*),
            "Ipv4Inet" => $f::<$crate::kinds::KIpv4Inet>($($arg),*),
            "Ipv6Inet" => $f::<$crate::kinds::KIpv6Inet>($($arg),*),
            other => panic!("unknown kind {other}"),
        }
    };
}
