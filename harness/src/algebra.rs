//! C17: the prefix algebra of every shipped `Prefix` implementation against pure integer
//! definitions. No trie involved.

use crate::base::*;
use crate::ev::*;
use crate::kinds::Kind;
use prefix_trie::Prefix;
use serde_json::json;

fn ra(bits: u128, w: u8) -> u128 {
    if w == 128 {
        bits
    } else {
        bits >> (128 - w as u32)
    }
}

fn sample_prefixes<K: Kind>(rng: &mut Rng, exhaustive: bool, per_len: usize) -> Vec<EP> {
    let w = K::W;
    let mut v = Vec::new();
    if exhaustive && w == 16 {
        // every representation of the 16-bit tuple type (unary facts exhaustively; pairs are sampled)
        for len in 0..=16u8 {
            for a in 0..=65535u32 {
                v.push(EP::new((a as u128) << 112, len));
            }
        }
        return v;
    }
    if exhaustive {
        assert!(w == 8);
        for len in 0..=8u8 {
            for a in 0..=255u32 {
                v.push(EP::new((a as u128) << 120, len));
            }
        }
        return v;
    }
    let wm = mask(w);
    for len in 0..=w {
        let mut addrs: Vec<u128> = vec![0, wm];
        let one = |p: u8| if p < w { 1u128 << (127 - p as u32) } else { 0 };
        addrs.push(one(0));
        if len > 0 {
            addrs.push(one(len - 1));
        }
        addrs.push(one(len));
        addrs.push(one(w - 1));
        addrs.push(0xAAAA_AAAA_AAAA_AAAA_AAAA_AAAA_AAAA_AAAAu128 & wm);
        addrs.push(0x5555_5555_5555_5555_5555_5555_5555_5555u128 & wm);
        // network part all ones, host zero; network zero, host all ones
        addrs.push(mask(len) & wm);
        addrs.push(!mask(len) & wm);
        for _ in 0..per_len {
            addrs.push(rng.u128() & wm);
        }
        // near-identical pairs: share exactly len-1 / len bits with an earlier address
        let base = rng.u128() & wm;
        addrs.push(base);
        if len > 0 {
            addrs.push(base ^ one(len - 1));
        }
        addrs.push(base ^ one(len));
        addrs.sort();
        addrs.dedup();
        for a in addrs {
            v.push(EP::new(a, len));
        }
    }
    v
}

pub fn algebra<K: Kind>(ev: &mut Ev, seed: u64, exhaustive: bool, per_len: usize, max_pairs: u64, replay: serde_json::Value) {
    let w = K::W;
    let mut rng = Rng::from_parts(&[seed, w as u64, 0xA16E]);
    let eps = sample_prefixes::<K>(&mut rng, exhaustive, per_len);
    let eps: Vec<EP> = if K::KEEPS_HOST { eps } else { eps.into_iter().map(|e| e.canon()).collect::<std::collections::BTreeSet<_>>().into_iter().collect() };
    let ps: Vec<K::P> = eps.iter().map(|e| K::mk(*e)).collect();
    let name = K::NAME;
    macro_rules! fail {
        ($sig:expr, $($arg:tt)*) => {{
            ev.violation(&format!("C17/{}/{}", name, $sig), format!("[{}] {}", name, format!($($arg)*)), replay.clone());
            return;
        }};
    }
    macro_rules! g {
        ($what:expr, $e:expr) => {
            match guarded(|| $e) {
                Ok(x) => x,
                Err(p) => fail!(format!("panic/{}", $what), "{} panicked: {} at {}", $what, p.msg, p.site()),
            }
        };
    }
    // ---- unary facts
    let z = g!("zero", K::P::zero());
    let zd = K::dec(&z);
    if zd.len != 0 || g!("zero.prefix_len", z.prefix_len()) != 0 || K::r_to(g!("zero.mask", z.mask())) != 0 {
        fail!("zero", "zero() = {:?}", z);
    }
    for (e, p) in eps.iter().zip(&ps) {
        beat("check/algebra unary");
        ev.evaluations += 1;
        // the encoding itself
        let d = K::dec(p);
        if d != *e {
            ev.inconclusive("harness encoding round trip failed");
            return;
        }
        if g!("prefix_len", p.prefix_len()) != e.len {
            fail!("prefix_len", "prefix_len({:?}) = {}", e, p.prefix_len());
        }
        let m = K::r_to(g!("mask", p.mask()));
        if m != ra(e.net(), w) {
            fail!("mask", "mask({:?}) = {:#x}, expected {:#x}", e, m, ra(e.net(), w));
        }
        let r = K::r_to(g!("repr", p.repr()));
        if r & ra(mask(e.len), w) != ra(e.net(), w) {
            fail!("repr", "repr({:?}) = {:#x} does not carry the network part", e, r);
        }
        // from_repr_len: length l, network part r masked to l
        let f = g!("from_repr_len", K::P::from_repr_len(K::r_from(ra(e.bits, w)), e.len));
        let fd = K::dec(&f);
        if fd.len != e.len || fd.net() != e.net() || K::r_to(g!("mask", f.mask())) != ra(e.net(), w) {
            fail!("from_repr_len", "from_repr_len({:#x}, {}) = {:?}", ra(e.bits, w), e.len, fd);
        }
        if !g!("eq", Prefix::eq(&f, p)) {
            fail!("eq/from_repr_len", "from_repr_len(repr, len) is not eq to the prefix {:?}", e);
        }
        // is_bit_set for every index 0..=255
        for i in 0..=255u8 {
            let want = i < e.len && bit(e.bits, i);
            let got = g!("is_bit_set", p.is_bit_set(i));
            if got != want {
                fail!(format!("is_bit_set/{}", if i >= e.len { "beyond-length" } else { "inside" }), "is_bit_set({:?}, {}) = {}, expected {}", e, i, got, want);
            }
        }
        ev.count("bit_tests", 256);
        // reflexivity
        if !g!("contains", p.contains(p)) || !g!("eq", Prefix::eq(p, p)) {
            fail!("reflexive", "{:?} does not contain / equal itself", e);
        }
        ev.hash(H::new().ep(*e).get());
    }
    // ---- binary facts over all pairs (or a capped random subset)
    let n = eps.len();
    let total = (n as u64) * (n as u64);
    let all = total <= max_pairs;
    let count = if all { total } else { max_pairs };
    for t in 0..count {
        if t % 4096 == 0 {
            beat("check/algebra pairs");
        }
        let (i, j) = if all { ((t / n as u64) as usize, (t % n as u64) as usize) } else { (rng.below(n), rng.below(n)) };
        let (a, b) = (eps[i], eps[j]);
        let (pa, pb) = (&ps[i], &ps[j]);
        ev.evaluations += 1;
        let c = g!("contains", pa.contains(pb));
        if c != a.covers(b) {
            fail!(format!("contains/{}", if c { "spurious" } else { "missed" }), "contains({:?}, {:?}) = {}, bitwise coverage says {}", a, b, c, a.covers(b));
        }
        let e = g!("eq", Prefix::eq(pa, pb));
        if e != (a.key() == b.key()) {
            fail!("eq", "eq({:?}, {:?}) = {}", a, b, e);
        }
        let l = g!("longest_common_prefix", pa.longest_common_prefix(pb));
        let ld = K::dec(&l);
        let want = lcp(a.key(), b.key());
        if ld.len != want.1 {
            fail!("lcp/length", "longest_common_prefix({:?}, {:?}) has length {}, expected {}", a, b, ld.len, want.1);
        }
        if ld.net() != want.0 {
            fail!("lcp/network", "longest_common_prefix({:?}, {:?}) = {:?}, expected {:?}", a, b, ld, EP::new(want.0, want.1));
        }
        if ld.bits != ld.net() {
            fail!("lcp/host-part-not-zero", "longest_common_prefix({:?}, {:?}) = {:?} has host bits set", a, b, ld);
        }
        if !g!("contains", l.contains(pa)) || !g!("contains", l.contains(pb)) {
            fail!("lcp/does-not-cover", "longest_common_prefix({:?}, {:?}) = {:?} does not cover both", a, b, ld);
        }
        if !all || i <= j {
            let l2 = g!("longest_common_prefix", pb.longest_common_prefix(pa));
            if K::dec(&l2).key() != ld.key() {
                fail!("lcp/not-symmetric", "longest_common_prefix is not symmetric for {:?}, {:?}", a, b);
            }
        }
        // antisymmetry up to host bits
        if c && g!("contains", pb.contains(pa)) && a.key() != b.key() {
            fail!("contains/antisymmetry", "{:?} and {:?} contain each other", a, b);
        }
    }
    ev.count(&format!("prefixes/{}", name), n as u64);
    ev.count(&format!("pairs/{}", name), count);
    if all {
        ev.count("kinds_with_all_pairs", 1);
    }
    // transitivity on random triples (follows from exact agreement with coverage; checked directly anyway)
    for _ in 0..20_000.min(count) {
        let (i, j, k) = (rng.below(n), rng.below(n), rng.below(n));
        if ps[i].contains(&ps[j]) && ps[j].contains(&ps[k]) && !ps[i].contains(&ps[k]) {
            fail!("contains/transitivity", "{:?} > {:?} > {:?} but not transitive", eps[i], eps[j], eps[k]);
        }
    }
    ev.sample(json!({"kind": name, "width": w, "prefixes": n, "pairs": count, "all_pairs": all, "example": format!("{:?}", eps[n / 2])}));
}
