//! The abstract map: an ordered map keyed by (network address, length) holding the stored
//! representation and the value. Pure integers; never calls the library.

use crate::base::*;
use std::collections::BTreeMap;

#[derive(Clone, Default, Debug, PartialEq, Eq)]
pub struct Model {
    /// key -> (stored representation bits incl. host bits, value)
    pub m: BTreeMap<Key, (u128, u64)>,
}

impl Model {
    pub fn new() -> Self {
        Self::default()
    }
    pub fn len(&self) -> usize {
        self.m.len()
    }
    pub fn item(k: &Key, v: &(u128, u64)) -> Item {
        (EP::new(v.0, k.1), v.1)
    }
    pub fn get(&self, q: EP) -> Option<Item> {
        let k = q.key();
        self.m.get(&k).map(|v| Self::item(&k, v))
    }
    pub fn contains(&self, q: EP) -> bool {
        self.m.contains_key(&q.key())
    }
    /// insert/replace; stored representation := p
    pub fn insert(&mut self, p: EP, v: u64) -> Option<u64> {
        self.m.insert(p.key(), (p.bits, v)).map(|o| o.1)
    }
    /// set the value only (stored representation unchanged); entry must exist
    pub fn set_value(&mut self, q: EP, v: u64) -> Option<u64> {
        self.m.get_mut(&q.key()).map(|e| std::mem::replace(&mut e.1, v))
    }
    pub fn remove(&mut self, q: EP) -> Option<u64> {
        self.m.remove(&q.key()).map(|o| o.1)
    }
    /// all entries in lexicographic order
    pub fn entries(&self) -> Vec<Item> {
        self.m.iter().map(|(k, v)| Self::item(k, v)).collect()
    }
    /// all entries covered by q (q included), lexicographic
    pub fn covered_by(&self, q: EP) -> Vec<Item> {
        let qk = q.key();
        // everything covered by q lies in the contiguous key range starting at (net, len)
        self.m
            .range(qk..)
            .take_while(|(k, _)| key_covers(qk, **k))
            .map(|(k, v)| Self::item(k, v))
            .collect()
    }
    pub fn any_covered_by(&self, q: EP) -> bool {
        let qk = q.key();
        self.m.range(qk..).next().map_or(false, |(k, _)| key_covers(qk, *k))
    }
    /// entries covering q, ascending length (deliberately the naive O(n) definition)
    pub fn cover(&self, q: EP) -> Vec<Item> {
        let qk = q.key();
        let mut v: Vec<Item> = self
            .m
            .iter()
            .filter(|(k, _)| key_covers(**k, qk))
            .map(|(k, v)| Self::item(k, v))
            .collect();
        v.sort_by_key(|(p, _)| p.len);
        v
    }
    pub fn lpm(&self, q: EP) -> Option<Item> {
        self.cover(q).last().copied()
    }
    pub fn spm(&self, q: EP) -> Option<Item> {
        self.cover(q).first().copied()
    }
    pub fn remove_children(&mut self, q: EP) -> usize {
        let qk = q.key();
        let ks: Vec<Key> = self.m.keys().copied().filter(|k| key_covers(qk, *k)).collect();
        for k in &ks {
            self.m.remove(k);
        }
        ks.len()
    }
    /// sub-model of entries covered by q
    pub fn sub(&self, q: EP) -> Model {
        let qk = q.key();
        Model { m: self.m.iter().filter(|(k, _)| key_covers(qk, **k)).map(|(k, v)| (*k, *v)).collect() }
    }
    pub fn hash(&self) -> u64 {
        let mut h = H::new();
        for (k, v) in &self.m {
            h.u((k.0 >> 64) as u64).u(k.0 as u64).u(k.1 as u64).u((v.0 >> 64) as u64).u(v.0 as u64);
        }
        h.get()
    }
    pub fn keys_hash(&self) -> u64 {
        let mut h = H::new();
        for k in self.m.keys() {
            h.u((k.0 >> 64) as u64).u(k.0 as u64).u(k.1 as u64);
        }
        h.get()
    }
}

// ---------------------------------------------------------------------------------------------
// set algebra on two sub-models (entries of view a / view b)
// ---------------------------------------------------------------------------------------------

#[derive(Clone, Copy, Debug, PartialEq, Eq)]
pub enum Tag {
    Left,
    Right,
    Both,
}

/// erased item of a set operation
#[derive(Clone, Copy, Debug, PartialEq, Eq)]
pub struct SetItem {
    pub tag: Tag,
    pub key: Key,
    /// stored representation reported for the item
    pub prefix: EP,
    /// value in the left / right view stored under exactly this prefix
    pub l: Option<u64>,
    pub r: Option<u64>,
    /// LPM annotations (only where the API provides one)
    pub lpm_l: Option<Item>,
    pub lpm_r: Option<Item>,
}

pub fn model_union(a: &Model, b: &Model) -> Vec<(Key, Tag)> {
    let mut keys: Vec<Key> = a.m.keys().chain(b.m.keys()).copied().collect();
    keys.sort();
    keys.dedup();
    keys.into_iter()
        .map(|k| {
            let t = match (a.m.contains_key(&k), b.m.contains_key(&k)) {
                (true, true) => Tag::Both,
                (true, false) => Tag::Left,
                (false, true) => Tag::Right,
                _ => unreachable!(),
            };
            (k, t)
        })
        .collect()
}

pub fn model_intersection(a: &Model, b: &Model) -> Vec<Key> {
    a.m.keys().copied().filter(|k| b.m.contains_key(k)).collect()
}

pub fn model_difference(a: &Model, b: &Model) -> Vec<Key> {
    a.m.keys().copied().filter(|k| !b.m.contains_key(k)).collect()
}

pub fn model_covering_difference(a: &Model, b: &Model) -> Vec<Key> {
    a.m.keys().copied().filter(|k| !b.m.keys().any(|kb| key_covers(*kb, *k))).collect()
}

// ---------------------------------------------------------------------------------------------
// canonical shape of a key set (compressed binary trie), for C15
// ---------------------------------------------------------------------------------------------

/// pre-order list of (key, has_value) of the canonical trie for `keys`: the root (0,0), every
/// key, and every branching point (lcp of two keys that diverge below it).
pub fn canonical_shape(keys: &[Key]) -> Vec<(Key, bool)> {
    let mut nodes: std::collections::BTreeMap<Key, bool> = Default::default();
    nodes.insert((0, 0), false);
    for k in keys {
        nodes.insert(*k, true);
    }
    // branching points: lcp of lexicographically adjacent keys suffices for a compressed trie
    let mut sorted: Vec<Key> = keys.to_vec();
    sorted.sort();
    for w in sorted.windows(2) {
        let l = lcp(w[0], w[1]);
        // only a true branch if neither covers the other
        if !key_covers(w[0], w[1]) && !key_covers(w[1], w[0]) {
            nodes.entry(l).or_insert(false);
        }
    }
    for k in keys {
        nodes.insert(*k, true);
    }
    // BTreeMap order on (net,len) is pre-order of the trie
    nodes.into_iter().collect()
}
