//! Thread workload (C14), long churn (C16), systematic small-scope sweep.

use crate::api::*;
use crate::base::*;
use crate::ev::*;
use crate::gen::Gen;
use crate::hist::{arena_partition, shape_sig, Flow, Hist};
use crate::world::WorldApi;
use serde_json::json;
use std::collections::{HashSet, VecDeque};

// ---------------------------------------------------------------------------------------------
// C14: disjoint mutable views on threads == sequential
// ---------------------------------------------------------------------------------------------

pub fn run_threads(w: &mut dyn WorldApi, g: &mut Gen, ev: &mut Ev, iters: u64, budget: &crate::Budget, replay: serde_json::Value, sigs: &mut HashSet<u64>) {
    w.reset(4, 0);
    for it in 0..iters {
        if budget.expired() || !ev.violations.is_empty() {
            break;
        }
        // build a map
        w.apply(Slot::Map(0), &Op::Clear);
        let mut m = crate::model::Model::new();
        let n = 4 + g.rng.below(28);
        for _ in 0..n {
            let k = g.hkey(&m);
            let t = g.t();
            w.apply(Slot::Map(0), &Op::Insert(k, t));
            m.insert(k, t);
        }
        // a few value-less leftovers
        for _ in 0..g.rng.below(4) {
            if let Some(k) = g.resident(&m) {
                w.apply(Slot::Map(0), &Op::RemoveKeepTree(k));
                m.remove(k);
            }
        }
        w.copy(Slot::Map(0), Slot::Map(1));
        w.copy(Slot::Map(0), Slot::Map(2));
        let base = if g.rng.chance(1, 2) { ViewProg::default() } else { ViewProg { root: Some(g.hkey(&m)), nav: vec![] } };
        let mut plan = ThreadPlan { base, depth: 1 + g.rng.below(3) as u8, seed: g.rng.next(), yields: g.rng.chance(2, 3), threaded: true, steps_per_worker: 2 + g.rng.below(10) };
        let before = w.shape(Slot::Map(0));
        beat("check/threads");
        let ra = guarded(|| w.threads(Slot::Map(0), &plan));
        // the same plan once more on another copy: a second interleaving of the same scripts
        let ra2 = guarded(|| w.threads(Slot::Map(2), &plan));
        plan.threaded = false;
        let rb = guarded(|| w.threads(Slot::Map(1), &plan));
        let mut rj = replay.clone();
        rj["iteration"] = json!(it);
        rj["plan"] = json!(format!("{:?}", plan));
        let (oa, ob, oa2) = match (ra, rb, ra2) {
            (Ok(a), Ok(b), Ok(c)) => (a, b, c),
            (Err(p), _, _) | (_, Err(p), _) | (_, _, Err(p)) => {
                if p.harness() {
                    ev.inconclusive(&format!("harness error: {} at {}", p.msg, p.site()));
                } else if ev.prop != "C14" && ev.prop != "C20" {
                    ev.inconclusive("worker panic (owned by C14/C20)");
                } else {
                    ev.violation(&format!("{}/threads/panic/{}", ev.prop.clone(), p.sig()), format!("[{}] worker panicked: {} at {}", w.kind(), p.msg, p.site()), rj);
                }
                return;
            }
        };
        ev.evaluations += 1;
        if oa.workers < 2 || oa.writes == 0 {
            ev.count("threads/trivial_runs", 1);
            continue;
        }
        ev.count("threads/runs", 1);
        ev.count(&format!("threads/workers={}", oa.workers), 1);
        ev.count("threads/writes", oa.writes as u64);
        // interleaving signature: the sequence of worker ids in global write order
        let mut h = H::new();
        let mut switches = 0u64;
        for x in oa.log.windows(2) {
            if x[0].1 != x[1].1 {
                switches += 1;
            }
        }
        for (_, wid) in &oa.log {
            h.u(*wid as u64);
        }
        let order1: Vec<u8> = oa.log.iter().map(|x| x.1).collect();
        let order2: Vec<u8> = oa2.log.iter().map(|x| x.1).collect();
        if order1 != order2 {
            ev.count("threads/plans_run_under_two_distinct_interleavings", 1);
        }
        h.u(plan.seed);
        sigs.insert(h.get());
        ev.hash(h.get());
        ev.count("threads/context_switches_observed", switches);
        if switches + 1 > oa.workers as u64 {
            ev.count("threads/runs_with_true_interleaving", 1);
        }
        // concurrent == sequential
        let a = w.trav(Slot::Map(0), Trav::Iter, None).items;
        let b = w.trav(Slot::Map(1), Trav::Iter, None).items;
        let a2 = w.trav(Slot::Map(2), Trav::Iter, None).items;
        if (a != b || a2 != b || oa.roots != ob.roots || oa.writes != ob.writes || oa2.writes != ob.writes) && ev.prop != "C14" {
            ev.inconclusive("concurrent result differs from sequential (owned by C14)");
            continue;
        }
        if a != b || a2 != b || oa.roots != ob.roots || oa.writes != ob.writes || oa2.writes != ob.writes {
            ev.violation("C14/threads/concurrent-differs-from-sequential", format!("[{}] after mutating {} disjoint views on threads the map holds {:?}; the same scripts run sequentially give {:?}", w.kind(), oa.workers, a, b), rj);
            return;
        }
        if ev.prop == "C14" && (shape_sig(&w.shape(Slot::Map(0))) != shape_sig(&w.shape(Slot::Map(1))) || w.shape(Slot::Map(0)).len() != before.len()) {
            ev.violation("C14/threads/shape", format!("[{}] threaded mutation through views changed the tree shape", w.kind()), rj);
            return;
        }
        let (la, _) = w.len(Slot::Map(0));
        let (la2, _) = w.len(Slot::Map(2));
        let la = if la2 != a2.len() { la2 } else { la };
        if la != a.len() && ev.prop == "C20" {
            ev.inconclusive("len() differs after threaded mutation (owned by C04/C14)");
            continue;
        }
        if la != a.len() {
            ev.violation(&format!("{}/threads/len", ev.prop.clone()), format!("[{}] after threaded mutation len() = {} but {} entries", w.kind(), la, a.len()), rj);
            return;
        }
        if ev.samples.len() < 2 {
            ev.sample(json!({"kind": w.kind(), "workers": oa.workers, "worker_roots": oa.roots.iter().map(|r| format!("{:?}", r)).collect::<Vec<_>>(), "writes": oa.writes, "write_order_by_worker": oa.log.iter().take(40).map(|x| x.1).collect::<Vec<_>>()}));
        }
    }
}

// ---------------------------------------------------------------------------------------------
// C16: long churn over a bounded working set
// ---------------------------------------------------------------------------------------------

pub fn run_churn(w: &mut dyn WorldApi, g: &mut Gen, ev: &mut Ev, cycles: u64, with_remove_children: bool, budget: &crate::Budget, replay: serde_json::Value, live_bytes: &dyn Fn() -> usize) {
    w.reset(1, 1);
    let slot = Slot::Map(0);
    let ws: Vec<EP> = (0..48).map(|_| g.random_uni()).collect();
    let value_skew = w.value_accounting().map_or(0, |(l, p)| l - p as i64);
    let mut hw = 1usize;
    let mut series: Vec<(u64, usize, usize)> = Vec::new();
    let mut ops = 0u64;
    let warm = cycles / 4;
    let mut base_live = 0usize;
    for c in 0..cycles {
        if budget.expired() {
            break;
        }
        // one cycle: insert a batch from the working set, then take it out again some way
        beat("apply/churn cycle");
        let k = 2 + g.rng.below(20);
        let mut batch: Vec<EP> = (0..k).map(|_| *g.rng.pick(&ws)).collect();
        for p in &batch {
            // alternate the two insertion paths (PrefixMap::insert and the entry API)
            if c % 2 == 0 {
                w.apply(slot, &Op::Insert(g.host(*p), c));
            } else {
                w.apply(slot, &Op::Entry(g.host(*p), vec![EAct::OrInsert(c, None)]));
            }
            ops += 1;
        }
        let reach = arena_partition(&w.arena(slot)).0;
        hw = hw.max(reach);
        match g.rng.below(if with_remove_children { 6 } else { 5 }) {
            0 | 1 | 2 => {
                g.rng.shuffle(&mut batch);
                for p in &batch {
                    w.apply(slot, &Op::Remove(*p));
                    ops += 1;
                }
            }
            3 => {
                w.apply(slot, &Op::Retain(Pred::None, None));
                ops += 1;
            }
            4 => {
                w.apply(slot, &Op::Retain(Pred::Table(g.rng.next()), None));
                for p in &batch {
                    w.apply(slot, &Op::Remove(*p));
                }
                ops += 1 + batch.len() as u64;
            }
            _ => {
                for p in &batch {
                    let l = g.rng.below(p.len as usize + 1) as u8;
                    if l > 0 {
                        w.apply(slot, &Op::RemoveChildren(EP::new(p.bits, l)));
                    } else {
                        w.apply(slot, &Op::Remove(*p));
                    }
                    ops += 1;
                }
                w.apply(slot, &Op::Retain(Pred::None, None));
            }
        }
        if c % 64 == 0 || c + 1 == cycles {
            let a = w.arena(slot);
            let (reach, prob) = arena_partition(&a);
            ev.evaluations += 1;
            ev.hash(mix(c ^ (a.arena_len as u64) << 32 ^ (a.free.len() as u64) << 16));
            if let Some(p) = prob {
                ev.violation(&format!("C16/churn/arena/{}", p.0), format!("[{}] after {} churn cycles ({} operations): {}", w.kind(), c, ops, p.1), replay.clone());
                return;
            }
            if a.arena_len > 2 * hw {
                ev.violation("C16/churn/arena-bound", format!("[{}] after {} churn cycles the arena holds {} slots; at most {} nodes were ever needed at once", w.kind(), c, a.arena_len, hw), replay.clone());
                return;
            }
            if !with_remove_children && w.len(slot).0 == 0 && reach != 1 {
                ev.violation("C16/churn/emptied-map-keeps-nodes", format!("[{}] emptied map has {} reachable nodes", w.kind(), reach), replay.clone());
                return;
            }
            if let Some((alive, phys)) = w.value_accounting() {
                ev.count("churn/value_accounting_checks", 1);
                if alive - phys as i64 != value_skew {
                    let kind = if alive - phys as i64 > value_skew { "leaked" } else { "owned-twice" };
                    ev.violation(&format!("C16/churn/values/{}", kind), format!("[{}] after {} churn cycles ({} operations): {} values alive in the process, {} held in the arena (difference at start: {})", w.kind(), c, ops, alive, phys, value_skew), replay.clone());
                    return;
                }
            }
            let live = live_bytes();
            series.push((c, a.arena_len, live));
            if c >= warm && base_live == 0 {
                base_live = live;
            }
            ev.max("churn/max_arena_len", a.arena_len as u64);
            ev.max("churn/high_water_nodes", hw as u64);
        }
    }
    ev.count("churn/operations", ops);
    ev.count("churn/cycles", series.last().map_or(0, |x| x.0 + 1));
    // black-box cross-check: live heap bytes of the process stay flat after warm-up
    if base_live > 0 {
        let last = series.last().unwrap().2;
        ev.count("churn/live_bytes_after_warmup", base_live as u64);
        ev.count("churn/live_bytes_at_end", last as u64);
        if last > base_live * 2 + 65536 {
            ev.violation("C16/churn/heap-grows", format!("[{}] live heap bytes grew from {} (after warm-up) to {} under churn over a bounded working set", w.kind(), base_live, last), replay.clone());
            return;
        }
    }
    ev.sample(json!({"kind": w.kind(), "working_set": ws.len(), "cycles": series.last().map_or(0, |x| x.0 + 1), "operations": ops, "arena_len_series": series.iter().step_by((series.len() / 8).max(1)).map(|x| (x.0, x.1)).collect::<Vec<_>>()}));
}

// ---------------------------------------------------------------------------------------------
// small-scope systematic sweep: breadth-first closure over (contents, shape) states
// ---------------------------------------------------------------------------------------------

fn sweep_alphabet(uni: &[EP], is_set: bool) -> Vec<Op> {
    let mut ops = vec![Op::Clear, Op::Retain(Pred::None, None), Op::Retain(Pred::LenOdd, None), Op::Retain(Pred::Table(7), None), Op::Retain(Pred::Table(11), None)];
    for (i, k) in uni.iter().enumerate() {
        let v = 1000 + i as u64;
        ops.push(Op::Insert(*k, v));
        ops.push(Op::Remove(*k));
        ops.push(Op::RemoveKeepTree(*k));
        ops.push(Op::RemoveChildren(*k));
        ops.push(Op::ViewMut(ViewProg { root: Some(*k), nav: vec![] }, VAct::Set(v)));
        ops.push(Op::ViewMut(ViewProg { root: Some(*k), nav: vec![] }, VAct::Remove));
        if !is_set {
            ops.push(Op::Entry(*k, vec![EAct::OrInsert(v, None)]));
            ops.push(Op::Entry(*k, vec![EAct::Match, EAct::ORemove, EAct::VInsert(v, None)]));
        }
    }
    ops
}

#[allow(clippy::too_many_arguments)]
pub fn run_sweep(kind: &str, prop: &str, maxlen: u8, is_set: bool, max_states: usize, budget: &crate::Budget, ev: &mut Ev, replay: serde_json::Value) -> bool {
    let (wd, keeps) = crate::kinds::kind_facts(kind);
    let uni = universe(wd, Some(maxlen));
    let alphabet = sweep_alphabet(&uni, is_set);
    let mut seen: HashSet<(u64, u64)> = HashSet::new();
    let mut queue: VecDeque<Vec<usize>> = VecDeque::new();
    queue.push_back(vec![]);
    let mut transitions = 0u64;
    let mut closed = true;
    let mk = |path: &[usize], ev: &mut Ev| -> Option<Hist> {
        let g = Gen::new(wd, keeps, uni.clone(), Rng::new(1), is_set);
        let mut h = Hist::new(crate::world::new_world(kind), prop, is_set, g, replay.clone());
        h.g.keeps_host = false;
        h.light = true;
        let mut scratch = Ev::new(prop);
        for &i in path {
            if let Flow::Stop = h.step(&mut scratch, &alphabet[i]) {
                // cannot happen for a path that was explored before, unless behaviour is not deterministic
                ev.inconclusive("replay of an explored path stopped");
                return None;
            }
        }
        Some(h)
    };
    // initial state
    {
        let h = mk(&[], ev).unwrap();
        seen.insert((h.m.keys_hash(), shape_sig(&h.w.shape(h.slot))));
    }
    while let Some(path) = queue.pop_front() {
        if budget.expired() || seen.len() >= max_states {
            closed = false;
            break;
        }
        for (i, op) in alphabet.iter().enumerate() {
            let Some(mut h) = mk(&path, ev) else { return false };
            h.replay["sweep_path"] = json!(path.iter().map(|&j| format!("{:?}", alphabet[j])).collect::<Vec<_>>());
            transitions += 1;
            // transition-level oracles now; state-level oracles once per distinct state
            h.light = true;
            match h.step(ev, op) {
                Flow::Stop => {
                    if !ev.violations.is_empty() {
                        return false;
                    }
                    continue;
                }
                Flow::Continue => {}
            }
            let key = (h.m.keys_hash(), shape_sig(&h.w.shape(h.slot)));
            if seen.insert(key) {
                if let Flow::Stop = h.state_checks(ev) {
                    if !ev.violations.is_empty() {
                        return false;
                    }
                    continue;
                }
                ev.hash(mix(key.0 ^ key.1.rotate_left(9)));
                let mut p2 = path.clone();
                p2.push(i);
                ev.max("sweep/max_depth", p2.len() as u64);
                queue.push_back(p2);
            }
        }
    }
    ev.count(&format!("sweep/{}/len<={}/states", if is_set { "set" } else { "map" }, maxlen), seen.len() as u64);
    ev.count(&format!("sweep/{}/len<={}/transitions", if is_set { "set" } else { "map" }, maxlen), transitions);
    if closed && queue.is_empty() {
        ev.count("sweep/closed_state_spaces", 1);
    }
    ev.sample(json!({"sweep": format!("{} len<={} {}", kind, maxlen, if is_set {"set"} else {"map"}), "states": seen.len(), "transitions": transitions, "closed": closed && queue.is_empty(), "alphabet_size": alphabet.len()}));
    closed
}
