//! The erased vocabulary between the generic adapter (`world.rs`) and the monitors: operations,
//! observations, view programs. No generics here.

use crate::base::*;
pub use crate::model::{SetItem, Tag};

#[derive(Clone, Copy, Debug, PartialEq, Eq, Hash)]
pub enum Slot {
    Map(usize),
    Set(usize),
}

/// pure retain predicates over (stored prefix, value)
#[derive(Clone, Debug, PartialEq)]
pub enum Pred {
    All,
    None,
    ValueParity(u64),
    LenAtMost(u8),
    LenOdd,
    Under(EP),
    NotUnder(EP),
    /// pseudo-random table keyed on (key, salt)
    Table(u64),
    /// by host bits of the *stored* representation (exercises that the stored prefix is passed)
    HostZero,
}

impl Pred {
    pub fn eval(&self, p: EP, v: u64) -> bool {
        match self {
            Pred::All => true,
            Pred::None => false,
            Pred::ValueParity(x) => v % 2 == *x % 2,
            Pred::LenAtMost(l) => p.len <= *l,
            Pred::LenOdd => p.len % 2 == 1,
            Pred::Under(q) => q.covers(p),
            Pred::NotUnder(q) => !q.covers(p),
            Pred::Table(s) => {
                let k = p.key();
                mix((k.0 >> 64) as u64 ^ mix(k.0 as u64 ^ mix(k.1 as u64 ^ *s))) % 3 != 0
            }
            Pred::HostZero => p.bits == p.net(),
        }
    }
}

/// how to write through a set of simultaneously held mutable references
#[derive(Clone, Copy, Debug, PartialEq, Eq)]
pub enum WritePattern {
    /// collect all references, then write in yield order, then again in reverse order
    CollectThenWrite,
    /// write through each reference as it is yielded, keep it, continue, finally write all again
    WriteHoldContinue,
    /// only read (no write)
    ReadOnly,
}

#[derive(Clone, Copy, Debug, PartialEq, Eq)]
pub enum MutTrav {
    IterMut,
    ValuesMut,
    ChildrenMut,
}

/// actions on an `Entry` handle (see world.rs for the state machine)
#[derive(Clone, Debug, PartialEq)]
pub enum EAct {
    Get,
    Key,
    GetMutWrite(u64),
    AndModify(u64),
    AndModifyPanic,
    Insert(u64),
    OrInsert(u64, Option<u64>),
    OrInsertWith(u64, bool, Option<u64>),
    OrDefault(Option<u64>),
    Match,
    VKey,
    VInsert(u64, Option<u64>),
    VInsertWith(u64, bool, Option<u64>),
    VDefault(Option<u64>),
    OKey,
    OGet,
    OGetMutWrite(u64),
    OInsert(u64),
    ORemove,
}

#[derive(Clone, Debug, PartialEq)]
pub enum EObs {
    /// Option<&T> / Option<T> style result
    Val(Option<u64>),
    Key(EP),
    /// value seen through a returned `&mut T` (before the optional write)
    Ref(u64),
    /// `Match`: true = vacant
    Vacant(bool),
    /// action not applicable to the current handle state; not executed
    Skip,
}

#[derive(Clone, Debug, PartialEq)]
pub enum Nav {
    Find(EP),
    FindExact(EP),
    FindLpm(EP),
    ViewAt(EP),
    Left,
    Right,
    SplitL,
    SplitR,
}

#[derive(Clone, Debug, PartialEq, Default)]
pub struct ViewProg {
    /// None: `view()` / `view_mut()`; Some(q): `view_at(q)` / `view_mut_at(q)`
    pub root: Option<EP>,
    pub nav: Vec<Nav>,
}

/// what a view looks like after one step of a view program
#[derive(Clone, Debug, PartialEq)]
pub struct StepObs {
    /// the step succeeded (Some / Ok). On failure the observation is of the view we still hold.
    pub ok: bool,
    pub prefix: EP,
    pub value: Option<u64>,
    pub pv: Option<Item>,
    pub entries: Vec<Item>,
    pub keys: Vec<EP>,
    pub values: Vec<u64>,
    pub has_left: bool,
    pub has_right: bool,
    /// mutable views: the read-only re-borrow `(&view_mut).view()` shows the same position
    /// (prefix, value, sides, entries); always true for read-only views
    pub reborrow_same: bool,
    /// first inconsistency of the view with itself, if any: a `clone()` shows another position, or
    /// consuming one of its iterators through fold/last/count/nth/size_hint disagrees with `next()`
    pub self_bad: Option<(String, String)>,
}

#[derive(Clone, Debug, PartialEq)]
pub enum VAct {
    None,
    ValueMutWrite(u64),
    PrefixValueMutWrite(u64),
    Set(u64),
    Remove,
    IterMutWrite(u64, WritePattern),
    ValuesMutWrite(u64, WritePattern),
    IntoIterWrite(u64, WritePattern),
    /// take `(&view_mut).view()`, observe through it, drop it, then `value_mut` write
    ReborrowThenWrite(u64),
}

#[derive(Clone, Debug, PartialEq)]
pub struct Writes {
    /// (prefix, value before the write) in yield order
    pub seen: Vec<Item>,
    /// address of each yielded `&mut T`
    pub addrs: Vec<usize>,
    /// address of `get(prefix)` for each yielded prefix after the references were released
    pub addrs_after: Vec<usize>,
    /// tickets written (final value per reference, in yield order)
    pub written: Vec<u64>,
    pub val_size: usize,
}

#[derive(Clone, Debug, PartialEq)]
pub enum VActObs {
    None,
    Old(Option<u64>),
    Pv(Option<Item>),
    Set(Result<Option<u64>, u64>),
    Writes(Writes),
    Reborrow(StepObs, Option<u64>),
}

#[derive(Clone, Debug, PartialEq)]
pub enum ReplaceHow {
    Clone,
    /// `map.into_iter().collect()`
    IntoIterCollect,
    /// `from_iter` of own entries shuffled with this seed
    CollectShuffled(u64),
    /// serde_json round trip (kinds/slots that support it; otherwise `Ret::Unsupported`)
    Serde,
    /// build from an explicit list via `FromIterator`
    FromList(Vec<Item>),
    /// build from an explicit list via repeated `insert`
    InsertList(Vec<Item>),
    /// build via `entry(p).or_insert(v)`
    EntryList(Vec<Item>),
}

#[derive(Clone, Debug, PartialEq)]
pub enum Op {
    Insert(EP, u64),
    Remove(EP),
    RemoveKeepTree(EP),
    RemoveChildren(EP),
    Clear,
    /// predicate; panic on the k-th call (0-based) if Some(k)
    Retain(Pred, Option<usize>),
    Entry(EP, Vec<EAct>),
    GetMutWrite(EP, u64),
    GetLpmMutWrite(EP, u64),
    MutTravWrite(MutTrav, EP, u64, WritePattern),
    ViewMut(ViewProg, VAct),
    Replace(ReplaceHow),
}

#[derive(Clone, Debug, PartialEq)]
pub enum Ret {
    Unit,
    Val(Option<u64>),
    Bool(bool),
    Lpm(Option<Item>),
    Entry(Vec<EObs>),
    Writes(Writes),
    View(Vec<StepObs>, VActObs),
    Unsupported,
}

#[derive(Clone, Copy, Debug, PartialEq, Eq, Hash)]
pub enum Q1 {
    Get,
    GetMut,
    GetKeyValue,
    ContainsKey,
    EntryGet,
    EntryKey,
    GetLpm,
    GetLpmPrefix,
    GetLpmMut,
    GetSpm,
    GetSpmPrefix,
}

#[derive(Clone, Copy, Debug, PartialEq, Eq, Hash)]
pub enum QL {
    Cover,
    CoverKeys,
    CoverValues,
    Children,
    ChildrenMut,
    IntoChildren,
}

#[derive(Clone, Copy, Debug, PartialEq, Eq, Hash)]
pub enum Trav {
    Iter,
    Keys,
    Values,
    IterMut,
    ValuesMut,
    IntoIter,
    IntoKeys,
    IntoValues,
    RefIntoIter,
}

/// how an iterator is finished after `k` items were taken with `next()` ("iterator protocol":
/// every provided/overridden `Iterator` method must agree with plain `next()` calls)
#[derive(Clone, Copy, Debug, PartialEq, Eq, Hash)]
pub enum Fin {
    Fold,
    ForEach,
    Collect,
    Last,
    Count,
    Nth(usize),
    /// drop the iterator after the k items (owning iterators: the rest must be dropped with it)
    Drop,
}

#[derive(Clone, Debug, PartialEq)]
pub struct ProtoObs {
    pub k: usize,
    pub fin: Fin,
    /// number of items obtained through `next()` before the finisher ran (<= k)
    pub head: usize,
    pub last: Option<Option<Item>>,
    pub count: Option<usize>,
    pub nth: Option<Option<Item>>,
    /// (items yielded so far, size_hint lower, size_hint upper) before every `next()` and before the finisher
    pub hints: Vec<(usize, usize, Option<usize>)>,
}

#[derive(Clone, Debug, PartialEq, Default)]
pub struct ListObs {
    /// set when the traversal ran in protocol mode; `items` then holds every item seen individually
    /// (head via `next()`, then what fold/for_each/collect/next-after-nth delivered)
    pub proto: Option<ProtoObs>,
    pub items: Vec<Item>,
    /// items of a clone taken after `clone_at` items (remaining items only)
    pub clone_rest: Option<Vec<Item>>,
    /// how many items the original had yielded when the clone was taken
    pub clone_at: usize,
    /// `next()` kept returning None after exhaustion
    pub fused: bool,
    /// iterator exceeded the step budget (divergence)
    pub exceeded: bool,
}

#[derive(Clone, Debug, PartialEq)]
pub struct ShapeNode {
    pub prefix: EP,
    pub has_value: bool,
    pub left: Option<usize>,
    pub right: Option<usize>,
    pub depth: usize,
}

#[derive(Clone, Debug, PartialEq, Default)]
pub struct Arena {
    pub arena_len: usize,
    pub free: Vec<usize>,
    pub count: usize,
    pub slots: Vec<(Option<usize>, Option<usize>, bool)>,
}

#[derive(Clone, Copy, Debug, PartialEq, Eq, Hash)]
pub enum PairOp {
    Union,
    Intersection,
    Difference,
    CoveringDifference,
    UnionMut,
    IntersectionMut,
    DifferenceMut,
    CoveringDifferenceMut,
}

impl PairOp {
    pub fn is_mut(self) -> bool {
        matches!(self, PairOp::UnionMut | PairOp::IntersectionMut | PairOp::DifferenceMut | PairOp::CoveringDifferenceMut)
    }
    pub fn base(self) -> PairOp {
        match self {
            PairOp::UnionMut => PairOp::Union,
            PairOp::IntersectionMut => PairOp::Intersection,
            PairOp::DifferenceMut => PairOp::Difference,
            PairOp::CoveringDifferenceMut => PairOp::CoveringDifference,
            x => x,
        }
    }
}

#[derive(Clone, Debug, PartialEq, Default)]
pub struct PairObs {
    /// observations of the two operand views (last step of each program); None if a view did not exist
    pub a: Option<StepObs>,
    pub b: Option<StepObs>,
    pub items: Vec<SetItem>,
    pub fused: bool,
    pub exceeded: bool,
    /// for *_mut: addresses of the yielded `&mut L` / `&mut R`
    pub addrs_l: Vec<usize>,
    pub addrs_r: Vec<usize>,
    /// tickets written through the left / right references (yield order)
    pub written_l: Vec<(Key, u64)>,
    pub written_r: Vec<(Key, u64)>,
    pub val_size: usize,
    /// read-only set operations: consuming the iterator another way (k `next()` calls, then
    /// fold / last / count / nth / ..., `size_hint`) disagrees with the plain `next()` sequence
    pub proto_bad: Option<(String, String)>,
}

/// two disjoint mutable views of one map: `base` program, then `split()`, then each side navigates
#[derive(Clone, Debug, PartialEq, Default)]
pub struct SelfPair {
    pub base: ViewProg,
    pub nav_l: Vec<Nav>,
    pub nav_r: Vec<Nav>,
    /// swap the operands (right side becomes `self` of the operation)
    pub swap: bool,
}

#[derive(Clone, Debug, PartialEq)]
pub struct ThreadPlan {
    pub base: ViewProg,
    /// recursive split depth: up to 2^depth workers
    pub depth: u8,
    pub seed: u64,
    /// sprinkle `yield_now()` between worker steps
    pub yields: bool,
    /// run the workers on real threads (false: the sequential reference run)
    pub threaded: bool,
    pub steps_per_worker: usize,
}

#[derive(Clone, Debug, PartialEq, Default)]
pub struct ThreadObs {
    pub workers: usize,
    /// prefixes of the worker views
    pub roots: Vec<EP>,
    /// (sequence number, worker) of every write, in global order
    pub log: Vec<(u64, u8)>,
    pub writes: usize,
}
