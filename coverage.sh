#!/bin/bash
# Reach audit: which regions/lines of /repo/src do the monitor workloads drive?  (nightly llvm-tools)
set -u
cd /verif/harness
BIN=~/.rustup/toolchains/nightly-x86_64-unknown-linux-gnu/lib/rustlib/x86_64-unknown-linux-gnu/bin
export CARGO_TARGET_DIR=/verif/harness/target-cov RUSTFLAGS="-Cinstrument-coverage" CARGO_NET_OFFLINE=true
LLVM_PROFILE_FILE=/tmp/ptv-cov-build-%p.profraw cargo +nightly build --offline 2>&1 | tail -1
P=$CARGO_TARGET_DIR/debug/ptv
rm -rf /tmp/ptv-cov; mkdir -p /tmp/ptv-cov
T=${1:-6}
i=0
run() { LLVM_PROFILE_FILE=/tmp/ptv-cov/%p-%m.profraw "$P" "$@" >/dev/null 2>&1; }
for p in C01 C02 C03 C04 C09 C10 C11 C12 C13 C14 C15 C16 C18 C19 C20; do
  for k in u8 Ipv4Net Ipv6Inet; do run hist prop=$p kind=$k steps=100000000 time=$T sweep_every=4 & done; wait
done
for p in C05 C06 C07 C08 C13 C14 C18; do for k in u8 Ipv6Net; do run pairs prop=$p kind=$k rounds=100000000 time=$T & done; wait; done
for k in u8 u16 u32 u64 u128 usize Ipv4Net Ipv6Net Ipv4Network Ipv6Network Ipv4Cidr Ipv6Cidr Ipv4Inet Ipv6Inet; do run algebra kind=$k & done; wait
run pool kind=u8 rounds=30 & run pool kind=Ipv4Net rounds=30 & run threads kind=u8 iters=300 & run churn kind=u8 cycles=3000 rc=1 & run sweep prop=C01 kind=u8 maxlen=2 & wait
$BIN/llvm-profdata merge -sparse /tmp/ptv-cov/*.profraw -o /tmp/ptv-cov/all.profdata
$BIN/llvm-cov report "$P" -instr-profile=/tmp/ptv-cov/all.profdata --ignore-filename-regex='(/root/|/verif/|rustc/)' 2>/dev/null | tee /verif/findings/coverage-report.txt
$BIN/llvm-cov show "$P" -instr-profile=/tmp/ptv-cov/all.profdata --ignore-filename-regex='(/root/|/verif/|rustc/)' --show-line-counts-or-regions 2>/dev/null > /tmp/ptv-cov/show.txt
# unreached lines of the library (count 0)
grep -nE "^\s+[0-9]+\|\s+0\|" /tmp/ptv-cov/show.txt | head -200 > /tmp/ptv-cov/zero.txt
rm -rf /verif/harness/target-cov
