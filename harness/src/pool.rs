//! C19: equality over a pool of states; clone / collect / serde round trips.

use crate::api::*;
use crate::base::*;
use crate::ev::*;
use crate::gen::Gen;
use crate::model::Model;
use crate::world::WorldApi;
use serde_json::json;

struct Member {
    slot: Slot,
    m: Model,
    how: String,
}

fn build(w: &mut dyn WorldApi, slot: Slot, is_set: bool, ops: &[Op]) -> Model {
    let mut m = Model::new();
    for op in ops {
        w.apply(slot, op);
        match op {
            Op::Insert(p, v) => {
                m.insert(*p, if is_set { 0 } else { *v });
            }
            Op::Remove(p) | Op::RemoveKeepTree(p) => {
                m.remove(*p);
            }
            Op::GetMutWrite(p, v) => {
                m.set_value(*p, *v);
            }
            Op::Clear => m = Model::new(),
            _ => panic!("HARNESS:pool build op"),
        }
    }
    m
}

pub fn run_pool(w: &mut dyn WorldApi, g: &mut Gen, ev: &mut Ev, is_set: bool, replay: serde_json::Value) {
    const N: usize = 40;
    w.reset(N + 2, N + 2);
    let value_skew = w.value_accounting().map_or(0, |(l, p)| l - p as i64);
    let slot = |i: usize| if is_set { Slot::Set(i) } else { Slot::Map(i) };
    let mut members: Vec<Member> = Vec::new();
    let mut next = 0usize;
    // ---- a few base contents
    let nbase = 4;
    for b in 0..nbase {
        let n = match b {
            0 => 0,
            1 => 1 + g.rng.below(3),
            _ => 3 + g.rng.below(14),
        };
        let scratch = Model::new();
        let mut base: Vec<Op> = Vec::new();
        let mut keys: Vec<EP> = Vec::new();
        for _ in 0..n {
            let k = g.absent_key(&scratch);
            let k = g.host(k);
            keys.push(k);
            base.push(Op::Insert(k, g.t()));
        }
        // (i) plain build
        let mut variants: Vec<(String, Vec<Op>)> = vec![("inserted".into(), base.clone())];
        // (ii) same contents, different history / shape
        let mut churn = base.clone();
        let mut decanon = base.clone();
        let tmp = Model { m: keys.iter().map(|k| (k.key(), (k.bits, 0))).collect() };
        for _ in 0..4 {
            let x = g.absent_key(&tmp);
            if tmp.contains(x) {
                continue;
            }
            churn.insert(g.rng.below(churn.len() + 1), Op::Insert(x, 7));
            churn.push(Op::Remove(x));
            decanon.insert(g.rng.below(decanon.len() + 1), Op::Insert(x, 7));
            decanon.push(Op::RemoveKeepTree(x));
        }
        variants.push(("churned".into(), churn));
        variants.push(("de-canonicalised".into(), decanon));
        let mut rev = base.clone();
        rev.reverse();
        // reversing changes which duplicate wins only if keys repeat; keys are distinct here
        variants.push(("reverse-order".into(), rev));
        // (iii) strict prefixes of the entry sequence
        if n >= 1 {
            let mut sorted = keys.clone();
            sorted.sort_by_key(|k| k.key());
            for cut in [1usize, n / 2, n - 1] {
                if cut == 0 || cut > n {
                    continue;
                }
                let drop: Vec<EP> = sorted[n - cut..].to_vec();
                let mut v = base.clone();
                for d in &drop {
                    v.push(if g.rng.chance(1, 2) { Op::Remove(*d) } else { Op::RemoveKeepTree(*d) });
                }
                variants.push((format!("strict-prefix(-{})", cut), v));
            }
            // ... and a strict suffix / one missing in the middle
            let mut v = base.clone();
            v.push(Op::Remove(sorted[0]));
            variants.push(("first-entry-missing".into(), v));
            // (iv) one value changed
            if !is_set {
                let mut v = base.clone();
                v.push(Op::GetMutWrite(*g.rng.pick(&sorted), g.t()));
                variants.push(("one-value-changed".into(), v));
            }
            // (v) one stored representation changed (same key, other host bits)
            if g.keeps_host {
                let k = *g.rng.pick(&sorted);
                let k2 = EP::new(k.net() | (!k.bits & !mask(k.len) & mask(g.w)), k.len);
                if k2 != k {
                    let val = base.iter().find_map(|o| match o {
                        Op::Insert(p, v) if p.key() == k.key() => Some(*v),
                        _ => None,
                    });
                    let mut v = base.clone();
                    v.push(Op::Insert(k2, val.unwrap()));
                    variants.push(("one-host-part-changed".into(), v));
                }
            }
        }
        for (how, ops) in variants {
            if next >= N {
                break;
            }
            let s = slot(next);
            next += 1;
            let m = build(w, s, is_set, &ops);
            members.push(Member { slot: s, m, how: format!("base{}:{}", b, how) });
        }
    }
    // ---- gate: the states are what the model says (otherwise C01/C03 territory)
    for mem in &members {
        let got = w.trav(mem.slot, Trav::Iter, None).items;
        if got != mem.m.entries() {
            ev.inconclusive("pool member differs from its model (owned by C01/C03)");
            return;
        }
    }
    // ---- all ordered pairs
    let kind = w.kind();
    for a in &members {
        for b in &members {
            let expect = a.m.entries() == b.m.entries();
            beat("check/eq");
            let (e, ne) = w.eq(a.slot, b.slot);
            ev.evaluations += 1;
            let la = a.m.len();
            let lb = b.m.len();
            let class = if expect {
                "equal-contents"
            } else if la != lb && a.m.entries().iter().zip(b.m.entries().iter()).all(|(x, y)| x == y) {
                if la.min(lb) == 0 {
                    "one-empty"
                } else {
                    "strict-prefix"
                }
            } else if la == lb {
                "same-length-different"
            } else {
                "different"
            };
            ev.count(&format!("pairs/{}", class), 1);
            ev.hash(mix(a.m.hash() ^ b.m.hash().rotate_left(13) ^ (la as u64) << 48));
            if e != expect || ne == e {
                ev.violation(
                    &format!("C19/eq/{}/{}", if is_set { "set" } else { "map" }, class),
                    format!("[{}] {} ({} entries) == {} ({} entries) gives {} (!= gives {}), entry sequences are {}", kind, a.how, la, b.how, lb, e, ne, if expect { "equal" } else { "different" }),
                    {
                        let mut r = replay.clone();
                        r["a"] = json!(format!("{:?}", a.m.entries()));
                        r["b"] = json!(format!("{:?}", b.m.entries()));
                        r
                    },
                );
                return;
            }
        }
    }
    ev.sample(json!({"kind": kind, "container": if is_set {"PrefixSet"} else {"PrefixMap"}, "pool": members.iter().map(|m| format!("{} [{} entries]", m.how, m.m.len())).collect::<Vec<_>>()}));
    // ---- round trips: clone, collect (shuffled), into_iter().collect(), serde
    let scratch = slot(N + 1);
    // serde with other value types (values that serialize to null must survive the round trip)
    for mem in &members {
        match guarded(|| w.serde_other_values(mem.slot)) {
            Ok(None) => {}
            Ok(Some(msg)) => {
                ev.violation("C19/roundtrip/serde-other-value-types", format!("[{}] {}: {}", kind, mem.how, msg), replay.clone());
                return;
            }
            Err(p) => {
                ev.violation("C19/roundtrip-panic/serde-other-value-types", format!("[{}] serde round trip with Option / unit values panicked: {} at {}", kind, p.msg, p.site()), replay.clone());
                return;
            }
        }
        ev.count("roundtrip/serde_other_value_types", 1);
    }
    for mem in &members {
        let mut hows = vec![ReplaceHow::Clone, ReplaceHow::IntoIterCollect, ReplaceHow::CollectShuffled(g.rng.next())];
        if w.serde_supported(scratch) {
            hows.push(ReplaceHow::Serde);
        }
        for how in hows {
            w.copy(mem.slot, scratch);
            let r = guarded(|| w.apply(scratch, &Op::Replace(how.clone())));
            ev.evaluations += 1;
            match r {
                Ok(Ret::Unsupported) => continue,
                Ok(_) => {}
                Err(p) => {
                    ev.violation(&format!("C19/roundtrip-panic/{:?}", std::mem::discriminant(&how)), format!("[{}] {:?} panicked: {} at {}", kind, how, p.msg, p.site()), replay.clone());
                    return;
                }
            }
            // clones / rebuilt maps own their values: as many values alive as the maps hold
            if let Some((alive, phys)) = w.value_accounting() {
                ev.count("roundtrip/value_accounting_checks", 1);
                if alive - phys as i64 != value_skew {
                    let kindv = if alive - phys as i64 > value_skew { "leaked" } else { "owned-twice" };
                    ev.violation(&format!("C19/values/{}/{}", kindv, crate::hist::op_name(&Op::Replace(how.clone()))), format!("[{}] after {:?} of {}: {} values alive in the process, {} held in the arenas of all maps (the copy is not independent of the original, or values were lost)", kind, how, mem.how, alive, phys), replay.clone());
                    return;
                }
            }
            let (e, ne) = w.eq(mem.slot, scratch);
            let (e2, _) = w.eq(scratch, mem.slot);
            let items = w.trav(scratch, Trav::Iter, None).items;
            ev.count(&format!("roundtrip/{}", crate::hist::op_name(&Op::Replace(how.clone()))), 1);
            if !e || ne || !e2 || items != mem.m.entries() {
                ev.violation(
                    &format!("C19/roundtrip/{}", crate::hist::op_name(&Op::Replace(how.clone()))),
                    format!("[{}] {:?} of {} does not give an equal {} (==: {}, !=: {}, entries {:?} vs {:?})", kind, how, mem.how, if is_set { "set" } else { "map" }, e, ne, items, mem.m.entries()),
                    replay.clone(),
                );
                return;
            }
        }
    }
}
