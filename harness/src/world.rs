//! The generic adapter: interprets erased commands against real `PrefixMap<P, V>` / `PrefixSet<P>`
//! and returns erased observations. This is the only place where the library API is called.
#![allow(clippy::type_complexity)]

use crate::api::*;
use crate::base::*;
use crate::kinds::Kind;
use prefix_trie::map::Entry;
use prefix_trie::trieview::{DifferenceItem, UnionItem};
use prefix_trie::*;
use std::sync::atomic::{AtomicU64, Ordering};

// ---------------------------------------------------------------------------------------------
// value types
// ---------------------------------------------------------------------------------------------

pub trait Val: Clone + PartialEq + std::fmt::Debug + Send + Sync + 'static {
    fn mk(x: u64) -> Self;
    fn get(&self) -> u64;
    fn put(&mut self, x: u64);
    const IS_UNIT: bool = false;
}

impl Val for u64 {
    fn mk(x: u64) -> Self {
        x
    }
    fn get(&self) -> u64 {
        *self
    }
    fn put(&mut self, x: u64) {
        *self = x
    }
}

impl Val for () {
    fn mk(_: u64) -> Self {}
    fn get(&self) -> u64 {
        0
    }
    fn put(&mut self, _: u64) {}
    const IS_UNIT: bool = true;
}

/// heap-boxed value: lets Miri / ASan see double drops, leaks and use-after-free of values
#[derive(Clone, PartialEq, Debug, Default)]
pub struct BoxV(Box<u64>);
impl Val for BoxV {
    fn mk(x: u64) -> Self {
        BoxV(Box::new(x))
    }
    fn get(&self) -> u64 {
        *self.0
    }
    fn put(&mut self, x: u64) {
        *self.0 = x
    }
}

/// Conservation monitor for values: every value that exists (created through `mk`, `clone` or
/// `default`, not yet dropped) is counted. At a quiescent point the count must equal the number of
/// values physically present in the arenas of the maps of the (single) live world: fewer means two
/// owners of one value (bitwise copy / double drop), more means values that nobody owns any more
/// (leaked / forgotten).
pub static LIVE_VALUES: std::sync::atomic::AtomicI64 = std::sync::atomic::AtomicI64::new(0);
pub static LIVE_WORLDS: std::sync::atomic::AtomicI64 = std::sync::atomic::AtomicI64::new(0);

#[derive(Debug)]
pub struct Tr<I>(I);
impl<I: Clone> Clone for Tr<I> {
    fn clone(&self) -> Self {
        LIVE_VALUES.fetch_add(1, Ordering::SeqCst);
        Tr(self.0.clone())
    }
}
impl<I> Drop for Tr<I> {
    fn drop(&mut self) {
        LIVE_VALUES.fetch_sub(1, Ordering::SeqCst);
    }
}
impl<I: PartialEq> PartialEq for Tr<I> {
    fn eq(&self, o: &Self) -> bool {
        self.0 == o.0
    }
}
impl<I: Default> Default for Tr<I> {
    fn default() -> Self {
        LIVE_VALUES.fetch_add(1, Ordering::SeqCst);
        Tr(I::default())
    }
}
impl<I: Val> Val for Tr<I> {
    fn mk(x: u64) -> Self {
        LIVE_VALUES.fetch_add(1, Ordering::SeqCst);
        Tr(I::mk(x))
    }
    fn get(&self) -> u64 {
        self.0.get()
    }
    fn put(&mut self, x: u64) {
        self.0.put(x)
    }
}

impl serde::Serialize for Tr<u64> {
    fn serialize<S: serde::Serializer>(&self, s: S) -> Result<S::Ok, S::Error> {
        s.serialize_u64(self.0)
    }
}
impl<'de> serde::Deserialize<'de> for Tr<u64> {
    fn deserialize<D: serde::Deserializer<'de>>(d: D) -> Result<Self, D::Error> {
        let x = <u64 as serde::Deserialize>::deserialize(d)?;
        Ok(<Tr<u64> as Val>::mk(x))
    }
}

#[cfg(not(feature = "boxval"))]
pub type V = Tr<u64>;
#[cfg(feature = "boxval")]
pub type V = Tr<BoxV>;

/// global write sequence for the thread workload
static SEQ: AtomicU64 = AtomicU64::new(0);

// ---------------------------------------------------------------------------------------------
// erased interface
// ---------------------------------------------------------------------------------------------

pub trait WorldApi {
    fn kind(&self) -> &'static str;
    fn width(&self) -> u8;
    fn keeps_host(&self) -> bool;
    fn reset(&mut self, nmaps: usize, nsets: usize);
    fn apply(&mut self, s: Slot, op: &Op) -> Ret;
    /// log of retain-predicate calls of the last `Retain` (survives a panic in the predicate)
    fn take_pred_log(&mut self) -> Vec<(EP, u64, bool)>;
    fn q1(&mut self, s: Slot, w: Q1, q: EP) -> Option<Item>;
    fn ql(&mut self, s: Slot, w: QL, q: EP) -> ListObs;
    fn trav(&mut self, s: Slot, w: Trav, clone_at: Option<usize>) -> ListObs;
    fn len(&self, s: Slot) -> (usize, bool);
    fn view(&mut self, s: Slot, prog: &ViewProg, mutable: bool) -> Vec<StepObs>;
    fn shape(&self, s: Slot) -> Vec<ShapeNode>;
    fn arena(&self, s: Slot) -> Arena;
    fn pair(&mut self, op: PairOp, a: (Slot, &ViewProg), b: (Slot, &ViewProg), w: Option<(u64, WritePattern)>) -> PairObs;
    fn self_pair(&mut self, op: PairOp, s: Slot, sp: &SelfPair, w: Option<(u64, WritePattern)>) -> PairObs;
    fn eq(&self, a: Slot, b: Slot) -> (bool, bool);
    fn copy(&mut self, from: Slot, to: Slot);
    fn threads(&mut self, s: Slot, plan: &ThreadPlan) -> ThreadObs;
    fn serde_supported(&self, s: Slot) -> bool;
    /// `Debug` output length of the container and of a view (C20: formatting must return normally);
    /// also drives the `Default` iterators
    fn debug_fmt(&mut self, s: Slot, q: EP) -> usize;
    /// (values alive in the process, values physically present in the arenas of all maps of this
    /// world); None while another world is alive (the count is global)
    fn value_accounting(&self) -> Option<(i64, usize)>;
    /// serde round trip of the map's entries with other value types (`Option<u64>` with some `None`,
    /// and `()`): None = fine or unsupported for this kind, Some(message) = the round trip lost or
    /// changed entries
    fn serde_other_values(&self, s: Slot) -> Option<String>;
}

pub struct World<K: Kind> {
    pub maps: Vec<PrefixMap<K::P, V>>,
    pub sets: Vec<PrefixSet<K::P>>,
    pred_log: Vec<(EP, u64, bool)>,
    copies: u64,
}

impl<K: Kind> World<K> {
    pub fn new() -> Self {
        LIVE_WORLDS.fetch_add(1, Ordering::SeqCst);
        World { maps: Vec::new(), sets: Vec::new(), pred_log: Vec::new(), copies: 0 }
    }
}

impl<K: Kind> Drop for World<K> {
    fn drop(&mut self) {
        LIVE_WORLDS.fetch_sub(1, Ordering::SeqCst);
    }
}

pub fn new_world(kind: &str) -> Box<dyn WorldApi> {
    fn mk<K: Kind>() -> Box<dyn WorldApi>
    where
        World<K>: WorldApi,
    {
        Box::new(World::<K>::new())
    }
    crate::with_kind!(kind, mk)
}

// iterator step budget (divergence guard)
fn budget(arena_len: usize) -> usize {
    4 * arena_len + 16
}

thread_local! {
    /// one-shot protocol mode for the next `drain` / `drain_clone` on this thread
    static PROTO: std::cell::Cell<Option<(usize, Fin)>> = std::cell::Cell::new(None);
}

/// the next traversal made through `ql` / `trav` takes `k` items with `next()` and finishes with `fin`
pub fn set_proto(k: usize, fin: Fin) {
    PROTO.with(|p| p.set(Some((k, fin))));
}

pub fn clear_proto() {
    PROTO.with(|p| p.set(None));
}

fn drain_proto<I: Iterator, F: FnMut(I::Item) -> Item>(mut it: I, cap: usize, k: usize, fin: Fin, mut f: F) -> ListObs {
    let mut o = ListObs { fused: true, ..Default::default() };
    let mut po = ProtoObs { k, fin, head: 0, last: None, count: None, nth: None, hints: Vec::new() };
    let mut ended = false;
    for _ in 0..k {
        let h = it.size_hint();
        po.hints.push((o.items.len(), h.0, h.1));
        match it.next() {
            Some(x) => o.items.push(f(x)),
            None => {
                ended = true;
                break;
            }
        }
    }
    po.head = o.items.len();
    let h = it.size_hint();
    po.hints.push((o.items.len(), h.0, h.1));
    let _ = ended;
    {
        let items = &mut o.items;
        let mut push = |x: I::Item| {
            items.push(f(x));
            if items.len() > cap {
                panic!("ORACLE:iterator finisher {:?} delivers more items than the trie has nodes", fin);
            }
        };
        match fin {
            Fin::Fold => it.fold((), |(), x| push(x)),
            Fin::ForEach => it.for_each(|x| push(x)),
            Fin::Collect => {
                for x in it.collect::<Vec<_>>() {
                    push(x);
                }
            }
            Fin::Last => po.last = Some(it.last().map(|x| f2(&mut push, x))),
            Fin::Count => po.count = Some(it.count()),
            Fin::Drop => drop(it),
            Fin::Nth(n) => {
                po.nth = Some(it.nth(n).map(|x| f2(&mut push, x)));
                while let Some(x) = it.next() {
                    push(x);
                }
                for _ in 0..3 {
                    if it.next().is_some() {
                        o.fused = false;
                    }
                }
            }
        }
    }
    // `last` / `nth` results were pushed to `items` by f2 to convert them; take them out again
    match fin {
        Fin::Last => {
            if let Some(Some(_)) = po.last {
                po.last = Some(o.items.pop());
            }
        }
        Fin::Nth(_) => {
            if let Some(Some(_)) = po.nth {
                let x = o.items.remove(po.head);
                po.nth = Some(Some(x));
            }
        }
        _ => {}
    }
    o.proto = Some(po);
    o
}

/// convert one item through the pushing closure (keeps a single mutable borrow of the converter)
fn f2<X, P: FnMut(X)>(push: &mut P, x: X) -> Item {
    push(x);
    (NO_EP, NO_VAL)
}

/// drain an iterator with a step budget, then poke it 3 more times
fn drain<I: Iterator, F: FnMut(I::Item) -> Item>(mut it: I, cap: usize, mut f: F) -> ListObs {
    if let Some((k, fin)) = PROTO.with(|p| p.take()) {
        return drain_proto(it, cap, k, fin, f);
    }
    let mut o = ListObs { fused: true, ..Default::default() };
    loop {
        match it.next() {
            Some(x) => {
                o.items.push(f(x));
                if o.items.len() > cap {
                    o.exceeded = true;
                    return o;
                }
            }
            None => break,
        }
    }
    for _ in 0..3 {
        if it.next().is_some() {
            o.fused = false;
        }
    }
    o
}

/// drain a cloneable iterator; after `at` items take a clone and drain both
fn drain_clone<I: Iterator + Clone, F: FnMut(I::Item) -> Item>(mut it: I, cap: usize, at: Option<usize>, mut f: F) -> ListObs {
    if let Some((k, fin)) = PROTO.with(|p| p.take()) {
        // protocol mode on a clone taken mid-way every other time
        if k % 2 == 1 {
            let mut skipped = Vec::new();
            let mut hints = Vec::new();
            for _ in 0..k {
                let h = it.size_hint();
                hints.push((skipped.len(), h.0, h.1));
                match it.next() {
                    Some(x) => skipped.push(f(x)),
                    None => break,
                }
            }
            let c = it.clone();
            drop(it);
            let mut o = drain_proto(c, cap, 0, fin, &mut f);
            let head = skipped.len();
            if let Some(po) = o.proto.as_mut() {
                po.k = k;
                po.head = head;
                for h in po.hints.iter_mut() {
                    h.0 += head;
                }
                hints.extend(po.hints.drain(..));
                po.hints = hints;
            }
            skipped.extend(o.items.drain(..));
            o.items = skipped;
            return o;
        }
        return drain_proto(it, cap, k, fin, f);
    }
    let mut o = ListObs { fused: true, ..Default::default() };
    let mut cl: Option<I> = None;
    if at == Some(0) {
        cl = Some(it.clone());
    }
    loop {
        match it.next() {
            Some(x) => {
                o.items.push(f(x));
                if Some(o.items.len()) == at {
                    cl = Some(it.clone());
                    o.clone_at = o.items.len();
                }
                if o.items.len() > cap {
                    o.exceeded = true;
                    return o;
                }
            }
            None => break,
        }
    }
    for _ in 0..3 {
        if it.next().is_some() {
            o.fused = false;
        }
    }
    if let Some(mut c) = cl {
        let mut rest = Vec::new();
        while let Some(x) = c.next() {
            rest.push(f(x));
            if rest.len() > cap {
                o.exceeded = true;
                break;
            }
        }
        for _ in 0..3 {
            if c.next().is_some() {
                o.fused = false;
            }
        }
        o.clone_rest = Some(rest);
    }
    o
}

fn it<K: Kind, T: Val>(p: &K::P, v: &T) -> Item {
    (K::dec(p), v.get())
}

/// write tickets through a set of simultaneously held references
fn write_refs<T: Val>(refs: &mut [(EP, &mut T)], base: u64, pat: WritePattern) -> Vec<u64> {
    let n = refs.len();
    let mut written = vec![NO_VAL; n];
    match pat {
        WritePattern::ReadOnly => {
            for (i, r) in refs.iter().enumerate() {
                written[i] = r.1.get();
            }
        }
        _ => {
            for (i, r) in refs.iter_mut().enumerate() {
                r.1.put(base + 2 * i as u64);
            }
            // all still held: write again in reverse order, with the final tickets
            for i in (0..n).rev() {
                // check the first write is still visible through the held reference
                assert!(T::IS_UNIT || refs[i].1.get() == base + 2 * i as u64, "ORACLE:write through held reference lost");
                refs[i].1.put(base + 2 * i as u64 + 1);
                written[i] = base + 2 * i as u64 + 1;
            }
        }
    }
    written
}

/// run a mutable traversal: hold all yielded references, write per pattern
fn mut_trav<'a, K: Kind, T: Val, I: Iterator<Item = (&'a K::P, &'a mut T)>>(mut iter: I, cap: usize, base: u64, pat: WritePattern) -> Writes
where
    K::P: 'a,
{
    let mut refs: Vec<(EP, &'a mut T)> = Vec::new();
    let mut seen = Vec::new();
    let mut addrs = Vec::new();
    while let Some((p, v)) = iter.next() {
        let e = K::dec(p);
        seen.push((e, v.get()));
        addrs.push(v as *mut T as usize);
        if pat == WritePattern::WriteHoldContinue {
            // write immediately, keep the reference, continue iterating
            v.put(base + 2 * refs.len() as u64);
        }
        refs.push((e, v));
        if refs.len() > cap {
            panic!("ORACLE:divergence mutable iterator yields more items than nodes");
        }
    }
    for _ in 0..3 {
        assert!(iter.next().is_none(), "ORACLE:mutable iterator not fused");
    }
    let written = write_refs(&mut refs, base, pat);
    Writes { seen, addrs, addrs_after: Vec::new(), written, val_size: std::mem::size_of::<T>() }
}

// ---------------------------------------------------------------------------------------------
// views (generic over the value type and the container)
// ---------------------------------------------------------------------------------------------

thread_local! {
    /// cheap deterministic choice of the protocol mode for view iterators
    static VIEW_RNG: std::cell::Cell<u64> = std::cell::Cell::new(0x9e3779b97f4a7c15);
}

fn view_choice(n: usize) -> (u64, usize, Fin) {
    let r = VIEW_RNG.with(|c| {
        let x = mix(c.get().wrapping_add(0x9e3779b97f4a7c15));
        c.set(x);
        x
    });
    let k = ((r >> 8) as usize) % (n + 2);
    let fin = match (r >> 40) % 7 {
        0 | 1 => Fin::Fold,
        2 => Fin::ForEach,
        3 => Fin::Collect,
        4 => Fin::Last,
        5 => Fin::Count,
        _ => Fin::Nth(((r >> 50) % 4) as usize),
    };
    (r, k, fin)
}

fn obs_view<K: Kind, T: Val>(v: &TrieView<'_, K::P, T>, ok: bool) -> StepObs {
    // `IntoIterator for TrieView` is the same traversal as `iter()`
    let a: Vec<Item> = v.clone().into_iter().map(|(p, x)| it::<K, T>(p, x)).collect();
    let b: Vec<Item> = v.iter().map(|(p, x)| it::<K, T>(p, x)).collect();
    assert!(a == b, "ORACLE:TrieView::into_iter differs from iter()");
    let mut o = StepObs {
        ok,
        prefix: K::dec(v.prefix()),
        value: v.value().map(|x| x.get()),
        pv: v.prefix_value().map(|(p, x)| it::<K, T>(p, x)),
        entries: v.iter().map(|(p, x)| it::<K, T>(p, x)).collect(),
        keys: v.keys().map(|p| K::dec(p)).collect(),
        values: v.values().map(|x| x.get()).collect(),
        has_left: v.left().is_some(),
        has_right: v.right().is_some(),
        reborrow_same: true,
        self_bad: None,
    };
    // a clone of the view is the same view
    let c = v.clone();
    if K::dec(c.prefix()) != o.prefix || c.value().map(|x| x.get()) != o.value || c.left().is_some() != o.has_left || c.right().is_some() != o.has_right || c.prefix_value().map(|(p, x)| it::<K, T>(p, x)) != o.pv {
        o.self_bad = Some(("clone-differs".into(), format!("clone() of the view at {:?} is positioned at {:?} (value {:?}, left {}, right {})", o.prefix, K::dec(c.prefix()), c.value().map(|x| x.get()), c.left().is_some(), c.right().is_some())));
        return o;
    }
    // every way of consuming the view's iterators agrees with plain next() calls
    let n = o.entries.len();
    let (r, k, fin) = view_choice(n);
    let cap = 4 * n + 16;
    let (which, p, full): (&str, ListObs, Vec<Item>) = match r % 4 {
        0 => ("iter", drain_proto(v.iter(), cap, k, fin, |(p, x)| it::<K, T>(p, x)), o.entries.clone()),
        1 => ("keys", drain_proto(v.keys(), cap, k, fin, |p| (K::dec(p), NO_VAL)), o.keys.iter().map(|e| (*e, NO_VAL)).collect()),
        2 => ("values", drain_proto(v.values(), cap, k, fin, |x| (NO_EP, x.get())), o.values.iter().map(|x| (NO_EP, *x)).collect()),
        _ => ("into_iter", drain_proto(v.clone().into_iter(), cap, k, fin, |(p, x)| it::<K, T>(p, x)), o.entries.clone()),
    };
    if let Some(msg) = crate::hist::proto_eval(&p, &full) {
        o.self_bad = Some((format!("{}-protocol/{}", which, crate::hist::fin_name(fin)), format!("view at {:?}: {}(): {}", o.prefix, which, msg)));
    }
    o
}

fn lost() -> StepObs {
    StepObs { ok: false, prefix: NO_EP, value: None, pv: None, entries: vec![], keys: vec![], values: vec![], has_left: false, has_right: false, reborrow_same: true, self_bad: None }
}

fn run_view<'a, K: Kind, T: Val>(root: Option<TrieView<'a, K::P, T>>, nav: &[Nav]) -> (Vec<StepObs>, Option<TrieView<'a, K::P, T>>) {
    let mut out = Vec::new();
    let mut cur = match root {
        Some(v) => {
            out.push(obs_view::<K, T>(&v, true));
            v
        }
        None => {
            out.push(lost());
            return (out, None);
        }
    };
    for n in nav {
        let next = match n {
            Nav::Find(q) => cur.find(K::mk(*q)),
            Nav::FindExact(q) => cur.find_exact(&K::mk(*q)),
            Nav::FindLpm(q) => cur.find_lpm(&K::mk(*q)),
            Nav::ViewAt(q) => cur.clone().view_at(K::mk(*q)),
            Nav::Left | Nav::SplitL => cur.left(),
            Nav::Right | Nav::SplitR => cur.right(),
        };
        match next {
            Some(v) => {
                out.push(obs_view::<K, T>(&v, true));
                cur = v;
            }
            None => out.push(obs_view::<K, T>(&cur, false)),
        }
    }
    (out, Some(cur))
}

fn obs_view_mut<K: Kind, T: Val>(v: &mut TrieViewMut<'_, K::P, T>, ok: bool) -> StepObs {
    let prefix = K::dec(v.prefix());
    let value = v.value().map(|x| x.get());
    let pv = v.prefix_value().map(|(p, x)| it::<K, T>(p, x));
    let has_left = v.has_left();
    let has_right = v.has_right();
    {
        // several shared reads through one mutable view may be alive at once
        let r1 = v.value();
        let r2 = v.prefix_value();
        let r3 = v.value();
        let p1 = v.prefix();
        let ro = (&*v).view();
        let n = ro.iter().count();
        let same = r1.map(|x| x.get()) == r3.map(|x| x.get()) && r2.map(|(_, x)| x.get()) == r1.map(|x| x.get()) && K::dec(p1) == prefix && n >= r1.is_some() as usize;
        assert!(same, "ORACLE:overlapping shared reads through a mutable view disagree");
    }
    let keys = (&*v).view().keys().map(|p| K::dec(p)).collect();
    // the read-only re-borrow must show the very same position
    let ro = obs_view::<K, T>(&(&*v).view(), ok);
    let entries: Vec<Item> = v.iter_mut().map(|(p, x)| it::<K, T>(p, x)).collect();
    let values: Vec<u64> = v.values_mut().map(|x| x.get()).collect();
    let reborrow_same = ro.prefix == prefix && ro.value == value && ro.pv == pv && ro.has_left == has_left && ro.has_right == has_right && ro.entries == entries;
    let mut self_bad = ro.self_bad.clone();
    if self_bad.is_none() {
        let n = entries.len();
        let (r, k, fin) = view_choice(n);
        let cap = 4 * n + 16;
        let (which, p, full): (&str, ListObs, Vec<Item>) = if r % 2 == 0 {
            ("iter_mut", drain_proto(v.iter_mut(), cap, k, fin, |(p, x)| it::<K, T>(p, x)), entries.clone())
        } else {
            let vals: &Vec<u64> = &values;
            ("values_mut", drain_proto(v.values_mut(), cap, k, fin, |x| (NO_EP, x.get())), vals.iter().map(|x| (NO_EP, *x)).collect())
        };
        if let Some(msg) = crate::hist::proto_eval(&p, &full) {
            self_bad = Some((format!("{}-protocol/{}", which, crate::hist::fin_name(fin)), format!("mutable view at {:?}: {}(): {}", prefix, which, msg)));
        }
    }
    StepObs { ok, prefix, value, pv, entries, keys, values, has_left, has_right, reborrow_same, self_bad }
}

fn run_view_mut<'a, K: Kind, T: Val>(root: Option<TrieViewMut<'a, K::P, T>>, nav: &[Nav]) -> (Vec<StepObs>, Option<TrieViewMut<'a, K::P, T>>) {
    let mut out = Vec::new();
    let mut cur = match root {
        Some(mut v) => {
            out.push(obs_view_mut::<K, T>(&mut v, true));
            v
        }
        None => {
            out.push(lost());
            return (out, None);
        }
    };
    for n in nav {
        let next: Result<TrieViewMut<'a, K::P, T>, Option<TrieViewMut<'a, K::P, T>>> = match n {
            Nav::Find(q) => cur.find(K::mk(*q)).map_err(Some),
            Nav::FindExact(q) => cur.find_exact(&K::mk(*q)).map_err(Some),
            Nav::FindLpm(q) => cur.find_lpm(&K::mk(*q)).map_err(Some),
            Nav::ViewAt(q) => cur.view_mut_at(K::mk(*q)).ok_or(None),
            Nav::Left => cur.left().map_err(Some),
            Nav::Right => cur.right().map_err(Some),
            Nav::SplitL => cur.split().0.ok_or(None),
            Nav::SplitR => cur.split().1.ok_or(None),
        };
        match next {
            Ok(mut v) => {
                out.push(obs_view_mut::<K, T>(&mut v, true));
                cur = v;
            }
            Err(Some(mut v)) => {
                out.push(obs_view_mut::<K, T>(&mut v, false));
                cur = v;
            }
            Err(None) => {
                // the API consumed the view and returned nothing
                out.push(lost());
                return (out, None);
            }
        }
    }
    (out, Some(cur))
}

fn ro_root<'a, K: Kind, T: Val, M: AsView<'a, K::P, T>>(m: M, prog: &ViewProg) -> Option<TrieView<'a, K::P, T>> {
    match prog.root {
        None => Some(m.view()),
        Some(q) => m.view_at(K::mk(q)),
    }
}

fn mut_root<'a, K: Kind, T: Val, M: AsViewMut<'a, K::P, T>>(m: M, prog: &ViewProg) -> Option<TrieViewMut<'a, K::P, T>> {
    match prog.root {
        None => Some(m.view_mut()),
        Some(q) => m.view_mut_at(K::mk(q)),
    }
}

fn view_act<K: Kind, T: Val>(mut v: TrieViewMut<'_, K::P, T>, act: &VAct, cap: usize) -> VActObs {
    match act {
        VAct::None => VActObs::None,
        VAct::ValueMutWrite(x) => VActObs::Old(v.value_mut().map(|r| {
            let o = r.get();
            r.put(*x);
            o
        })),
        VAct::PrefixValueMutWrite(x) => VActObs::Pv(v.prefix_value_mut().map(|(p, r)| {
            let o = (K::dec(p), r.get());
            r.put(*x);
            o
        })),
        VAct::Set(x) => VActObs::Set(v.set(T::mk(*x)).map(|o| o.map(|t| t.get())).map_err(|t| t.get())),
        VAct::Remove => VActObs::Old(v.remove().map(|t| t.get())),
        VAct::IterMutWrite(base, pat) => VActObs::Writes(mut_trav::<K, T, _>(v.iter_mut(), cap, *base, *pat)),
        VAct::ValuesMutWrite(base, pat) => {
            // values_mut yields no prefixes: pair them up with the keys seen read-only
            let keys: Vec<EP> = (&v).view().keys().map(|p| K::dec(p)).collect();
            let mut refs: Vec<(EP, &mut T)> = Vec::new();
            let mut seen = Vec::new();
            let mut addrs = Vec::new();
            let mut n = 0usize;
            for r in v.values_mut() {
                let e = keys.get(n).copied().unwrap_or(NO_EP);
                n += 1;
                seen.push((e, r.get()));
                addrs.push(r as *mut T as usize);
                if *pat == WritePattern::WriteHoldContinue {
                    r.put(*base + 2 * refs.len() as u64);
                }
                refs.push((e, r));
                if refs.len() > cap {
                    panic!("ORACLE:divergence values_mut yields more items than nodes");
                }
            }
            let written = write_refs(&mut refs, *base, *pat);
            VActObs::Writes(Writes { seen, addrs, addrs_after: vec![], written, val_size: std::mem::size_of::<T>() })
        }
        VAct::IntoIterWrite(base, pat) => VActObs::Writes(mut_trav::<K, T, _>(v.into_iter(), cap, *base, *pat)),
        VAct::ReborrowThenWrite(x) => {
            let o = {
                let ro = (&v).view();
                obs_view::<K, T>(&ro, true)
            };
            let old = v.value_mut().map(|r| {
                let o = r.get();
                r.put(*x);
                o
            });
            VActObs::Reborrow(o, old)
        }
    }
}

// ---------------------------------------------------------------------------------------------
// set operations
// ---------------------------------------------------------------------------------------------

fn lpm<K: Kind, T: Val>(x: Option<(&K::P, &T)>) -> Option<Item> {
    x.map(|(p, v)| it::<K, T>(p, v))
}

fn pair_ro<'a, K: Kind, L: Val, R: Val>(a: &TrieView<'a, K::P, L>, b: TrieView<'a, K::P, R>, op: PairOp, cap: usize) -> (Vec<SetItem>, bool, bool, Option<(String, String)>) {
    let mut items = Vec::new();
    let mut fused = true;
    let mut exceeded = false;
    let mut proto_bad: Option<(String, String)> = None;
    let b2 = b.clone();
    // shared references into both operands (taken before) stay valid across a read-only operation
    let keep_a: Vec<&L> = a.values().collect();
    let keep_b: Vec<&R> = b.clone().values().collect();
    let before: u64 = keep_a.iter().fold(0u64, |s, x| s.wrapping_add(x.get())).wrapping_add(keep_b.iter().fold(0u64, |s, x| s.wrapping_add(x.get())));
    macro_rules! run {
        ($iter:expr, $conv:expr) => {{
            let mut iter = $iter;
            while let Some(x) = iter.next() {
                items.push($conv(x));
                if items.len() > cap {
                    exceeded = true;
                    break;
                }
            }
            if !exceeded {
                for _ in 0..3 {
                    if iter.next().is_some() {
                        fused = false;
                    }
                }
            }
        }};
    }
    match op.base() {
        PairOp::Union => run!(a.union(b), |u: UnionItem<'a, K::P, L, R>| {
            // the accessors must agree with the variant's fields
            let pfx = K::dec(u.prefix());
            match u {
                UnionItem::Left { prefix, left, right } => {
                    assert!(u.both().is_none(), "ORACLE:UnionItem::both on Left");
                    assert_eq!(lpm::<K, L>(u.left()), Some(it::<K, L>(prefix, left)), "ORACLE:UnionItem::left()");
                    assert_eq!(lpm::<K, R>(u.right()), lpm::<K, R>(right), "ORACLE:UnionItem::right()");
                    SetItem { tag: Tag::Left, key: pfx.key(), prefix: K::dec(prefix), l: Some(left.get()), r: None, lpm_l: None, lpm_r: lpm::<K, R>(right) }
                }
                UnionItem::Right { prefix, left, right } => {
                    assert!(u.both().is_none(), "ORACLE:UnionItem::both on Right");
                    assert_eq!(lpm::<K, R>(u.right()), Some(it::<K, R>(prefix, right)), "ORACLE:UnionItem::right()");
                    assert_eq!(lpm::<K, L>(u.left()), lpm::<K, L>(left), "ORACLE:UnionItem::left()");
                    SetItem { tag: Tag::Right, key: pfx.key(), prefix: K::dec(prefix), l: None, r: Some(right.get()), lpm_l: lpm::<K, L>(left), lpm_r: None }
                }
                UnionItem::Both { prefix, left, right } => {
                    let b = u.both().expect("ORACLE:UnionItem::both on Both");
                    assert_eq!((K::dec(b.0), b.1.get(), b.2.get()), (K::dec(prefix), left.get(), right.get()), "ORACLE:UnionItem::both()");
                    SetItem { tag: Tag::Both, key: pfx.key(), prefix: K::dec(prefix), l: Some(left.get()), r: Some(right.get()), lpm_l: None, lpm_r: None }
                }
            }
        }),
        PairOp::Intersection => run!(a.intersection(b), |(p, l, r): (&K::P, &L, &R)| {
            let e = K::dec(p);
            SetItem { tag: Tag::Both, key: e.key(), prefix: e, l: Some(l.get()), r: Some(r.get()), lpm_l: None, lpm_r: None }
        }),
        PairOp::Difference => run!(a.difference(b), |d: DifferenceItem<'a, K::P, L, R>| {
            let e = K::dec(d.prefix);
            SetItem { tag: Tag::Left, key: e.key(), prefix: e, l: Some(d.value.get()), r: None, lpm_l: None, lpm_r: lpm::<K, R>(d.right) }
        }),
        PairOp::CoveringDifference => run!(a.covering_difference(b), |(p, l): (&K::P, &L)| {
            let e = K::dec(p);
            SetItem { tag: Tag::Left, key: e.key(), prefix: e, l: Some(l.get()), r: None, lpm_l: None, lpm_r: None }
        }),
        _ => unreachable!(),
    }
    let after: u64 = keep_a.iter().fold(0u64, |s, x| s.wrapping_add(x.get())).wrapping_add(keep_b.iter().fold(0u64, |s, x| s.wrapping_add(x.get())));
    assert!(before == after, "ORACLE:values changed during a read-only set operation");
    if !exceeded {
        // the same operation consumed another way (only the selection is compared here: key and tag)
        let full: Vec<(Key, Tag)> = items.iter().map(|i| (i.key, i.tag)).collect();
        let (_, k, fin) = view_choice(full.len());
        let msg = match op.base() {
            PairOp::Union => proto_generic(
                a.union(b2),
                k,
                fin,
                cap,
                |u: UnionItem<'a, K::P, L, R>| {
                    let key = K::dec(u.prefix()).key();
                    (key, match u {
                        UnionItem::Left { .. } => Tag::Left,
                        UnionItem::Right { .. } => Tag::Right,
                        UnionItem::Both { .. } => Tag::Both,
                    })
                },
                &full,
            ),
            PairOp::Intersection => proto_generic(a.intersection(b2), k, fin, cap, |(p, _, _): (&K::P, &L, &R)| (K::dec(p).key(), Tag::Both), &full),
            PairOp::Difference => proto_generic(a.difference(b2), k, fin, cap, |d: DifferenceItem<'a, K::P, L, R>| (K::dec(d.prefix).key(), Tag::Left), &full),
            _ => proto_generic(a.covering_difference(b2), k, fin, cap, |(p, _): (&K::P, &L)| (K::dec(p).key(), Tag::Left), &full),
        };
        if let Some(m) = msg {
            proto_bad = Some((format!("protocol/{}", crate::hist::fin_name(fin)), m));
        }
    }
    (items, fused, exceeded, proto_bad)
}

/// protocol-mode consumption of any iterator judged against its plain `next()` sequence `full`
fn proto_generic<I: Iterator, X: PartialEq + Clone + std::fmt::Debug, F: FnMut(I::Item) -> X>(mut it: I, k: usize, fin: Fin, cap: usize, mut conv: F, full: &[X]) -> Option<String> {
    let n = full.len();
    let mut got: Vec<X> = Vec::new();
    let mut hints: Vec<(usize, usize, Option<usize>)> = Vec::new();
    for _ in 0..k {
        let h = it.size_hint();
        hints.push((got.len(), h.0, h.1));
        match it.next() {
            Some(x) => got.push(conv(x)),
            None => break,
        }
    }
    let head = got.len();
    let h = it.size_hint();
    hints.push((head, h.0, h.1));
    if head != k.min(n) || got[..] != full[..head] {
        return Some(format!("first {} next() calls gave {:?}, a plain traversal gives {:?}", k, got, full));
    }
    for (y, lo, hi) in &hints {
        let rem = n - *y;
        if *lo > rem || hi.map_or(false, |h| h < rem) {
            return Some(format!("size_hint() = ({}, {:?}) after {} items, but {} more items follow", lo, hi, y, rem));
        }
    }
    let rem = &full[head..];
    match fin {
        Fin::Fold | Fin::ForEach | Fin::Collect => {
            let mut over = false;
            {
                let mut push = |x: I::Item| {
                    if got.len() <= cap {
                        got.push(conv(x));
                    } else {
                        over = true;
                    }
                };
                match fin {
                    Fin::Fold => it.fold((), |(), x| push(x)),
                    Fin::ForEach => it.for_each(|x| push(x)),
                    _ => {
                        for x in it.collect::<Vec<_>>() {
                            push(x);
                        }
                    }
                }
            }
            if over || got[..] != full[..] {
                return Some(format!("{} next() calls then {:?} visit {:?}, plain next() calls visit {:?}", k, fin, got, full));
            }
        }
        Fin::Last => {
            let l = it.last().map(|x| conv(x));
            if l.as_ref() != rem.last() {
                return Some(format!("{} next() calls then last() = {:?}, a plain traversal ends with {:?}", k, l, rem.last()));
            }
        }
        Fin::Drop => drop(it),
        Fin::Count => {
            let c = it.count();
            if c != rem.len() {
                return Some(format!("{} next() calls then count() = {}, {} items remain", k, c, rem.len()));
            }
        }
        Fin::Nth(j) => {
            let x = it.nth(j).map(|x| conv(x));
            let mut rest = Vec::new();
            while let Some(y) = it.next() {
                rest.push(conv(y));
                if rest.len() > cap {
                    break;
                }
            }
            let exp_rest: &[X] = if j < rem.len() { &rem[j + 1..] } else { &[] };
            if x.as_ref() != rem.get(j) || rest[..] != exp_rest[..] {
                return Some(format!("{} next() calls then nth({}) = {:?} followed by {:?}; plain traversal: {:?}", k, j, x, rest, full));
            }
        }
    }
    None
}

/// right-hand operand of a mutable set operation
enum RhsMut<'a, P, R> {
    Mut(TrieViewMut<'a, P, R>),
    Ro(TrieView<'a, P, R>),
}

struct MutOut {
    items: Vec<SetItem>,
    addrs_l: Vec<usize>,
    addrs_r: Vec<usize>,
    written_l: Vec<(Key, u64)>,
    written_r: Vec<(Key, u64)>,
}

fn pair_mut<'a, K: Kind, L: Val, R: Val>(a: &'a mut TrieViewMut<'_, K::P, L>, b: RhsMut<'a, K::P, R>, op: PairOp, cap: usize, w: Option<(u64, WritePattern)>) -> MutOut {
    // every yielded reference is kept alive until the end
    let mut held: Vec<(EP, Option<&'a mut L>, Option<&'a mut R>, Option<Item>)> = Vec::new();
    let (base, pat) = w.unwrap_or((0, WritePattern::ReadOnly));
    macro_rules! push {
        ($e:expr, $l:expr, $r:expr, $lpm:expr) => {{
            let e: EP = $e;
            let mut l: Option<&'a mut L> = $l;
            let mut r: Option<&'a mut R> = $r;
            if pat == WritePattern::WriteHoldContinue {
                let i = held.len() as u64;
                if let Some(x) = l.as_mut() {
                    x.put(base + 4 * i);
                }
                if let Some(x) = r.as_mut() {
                    x.put(base + 4 * i + 1);
                }
            }
            held.push((e, l, r, $lpm));
            if held.len() > cap {
                panic!("ORACLE:divergence mutable set operation yields more items than nodes");
            }
        }};
    }
    let mut seen: Vec<(Option<u64>, Option<u64>)> = Vec::new();
    match (op, b) {
        (PairOp::UnionMut, RhsMut::Mut(b)) => {
            let mut iter = a.union_mut(b);
            while let Some((p, l, r)) = iter.next() {
                seen.push((l.as_ref().map(|x| x.get()), r.as_ref().map(|x| x.get())));
                push!(K::dec(p), l, r, None);
            }
            for _ in 0..3 {
                assert!(iter.next().is_none(), "ORACLE:union_mut not fused");
            }
        }
        (PairOp::IntersectionMut, RhsMut::Mut(b)) => {
            let mut iter = a.intersection_mut(b);
            while let Some((p, l, r)) = iter.next() {
                seen.push((Some(l.get()), Some(r.get())));
                push!(K::dec(p), Some(l), Some(r), None);
            }
            for _ in 0..3 {
                assert!(iter.next().is_none(), "ORACLE:intersection_mut not fused");
            }
        }
        (PairOp::DifferenceMut, RhsMut::Ro(b)) => {
            // shared references into the read-only operand stay valid across the operation
            let keep: Vec<&R> = b.clone().values().collect();
            let before: u64 = keep.iter().fold(0u64, |s, x| s.wrapping_add(x.get()));
            let mut iter = a.difference_mut(b);
            while let Some(d) = iter.next() {
                seen.push((Some(d.value.get()), None));
                let ann = Some(lpm::<K, R>(d.right).unwrap_or((NO_EP, NO_VAL)));
                push!(K::dec(d.prefix), Some(d.value), None, ann);
            }
            for _ in 0..3 {
                assert!(iter.next().is_none(), "ORACLE:difference_mut not fused");
            }
            let after: u64 = keep.iter().fold(0u64, |s, x| s.wrapping_add(x.get()));
            assert!(before == after, "ORACLE:values of the read-only operand changed during difference_mut");
        }
        (PairOp::CoveringDifferenceMut, RhsMut::Ro(b)) => {
            let keep: Vec<&R> = b.clone().values().collect();
            let before: u64 = keep.iter().fold(0u64, |s, x| s.wrapping_add(x.get()));
            let mut iter = a.covering_difference_mut(b);
            while let Some((p, l)) = iter.next() {
                seen.push((Some(l.get()), None));
                push!(K::dec(p), Some(l), None, None);
            }
            for _ in 0..3 {
                assert!(iter.next().is_none(), "ORACLE:covering_difference_mut not fused");
            }
            let after: u64 = keep.iter().fold(0u64, |s, x| s.wrapping_add(x.get()));
            assert!(before == after, "ORACLE:values of the read-only operand changed during covering_difference_mut");
        }
        _ => panic!("HARNESS:pair_mut operand kind mismatch"),
    }
    let mut out = MutOut { items: vec![], addrs_l: vec![], addrs_r: vec![], written_l: vec![], written_r: vec![] };
    // final writes while everything is held (reverse order)
    let n = held.len();
    if pat != WritePattern::ReadOnly {
        for i in (0..n).rev() {
            let h = &mut held[i];
            if let Some(x) = h.1.as_mut() {
                if pat == WritePattern::WriteHoldContinue {
                    assert!(L::IS_UNIT || x.get() == base + 4 * i as u64, "ORACLE:write through held reference lost (left)");
                }
                x.put(base + 4 * i as u64 + 2);
            }
            if let Some(x) = h.2.as_mut() {
                if pat == WritePattern::WriteHoldContinue {
                    assert!(R::IS_UNIT || x.get() == base + 4 * i as u64 + 1, "ORACLE:write through held reference lost (right)");
                }
                x.put(base + 4 * i as u64 + 3);
            }
        }
    }
    for (i, (e, l, r, ann)) in held.iter_mut().enumerate() {
        let tag = match (l.is_some(), r.is_some()) {
            (true, true) => Tag::Both,
            (true, false) => Tag::Left,
            (false, true) => Tag::Right,
            _ => panic!("ORACLE:mutable set operation yielded an item with neither side"),
        };
        let lpm_r = match ann {
            Some((p, _)) if p.is_none() => None,
            Some(x) => Some(*x),
            None => None,
        };
        out.items.push(SetItem { tag, key: e.key(), prefix: *e, l: seen[i].0, r: seen[i].1, lpm_l: None, lpm_r });
        if let Some(x) = l {
            out.addrs_l.push(*x as *mut L as usize);
            if pat != WritePattern::ReadOnly && !L::IS_UNIT {
                out.written_l.push((e.key(), base + 4 * i as u64 + 2));
            }
        }
        if let Some(x) = r {
            out.addrs_r.push(*x as *mut R as usize);
            if pat != WritePattern::ReadOnly && !R::IS_UNIT {
                out.written_r.push((e.key(), base + 4 * i as u64 + 3));
            }
        }
    }
    // difference_mut annotations were carried separately (None = API has no annotation)
    if op != PairOp::DifferenceMut {
        for x in out.items.iter_mut() {
            x.lpm_r = None;
        }
    }
    out
}

// ---------------------------------------------------------------------------------------------
// shape walker (public view API only)
// ---------------------------------------------------------------------------------------------

fn walk<K: Kind, T: Val>(v: TrieView<'_, K::P, T>, depth: usize, out: &mut Vec<ShapeNode>, cap: usize) -> usize {
    let me = out.len();
    out.push(ShapeNode { prefix: K::dec(v.prefix()), has_value: v.value().is_some(), left: None, right: None, depth });
    if out.len() > cap || depth > 300 {
        panic!("ORACLE:shape walk exceeds arena size or depth (cycle?)");
    }
    if let Some(l) = v.left() {
        let i = walk::<K, T>(l, depth + 1, out, cap);
        out[me].left = Some(i);
    }
    if let Some(r) = v.right() {
        let i = walk::<K, T>(r, depth + 1, out, cap);
        out[me].right = Some(i);
    }
    me
}

// ---------------------------------------------------------------------------------------------
// thread workload
// ---------------------------------------------------------------------------------------------

fn ticket_for(e: EP, step: u64, salt: u64) -> u64 {
    let k = e.key();
    (mix((k.0 >> 64) as u64 ^ mix(k.0 as u64 ^ mix(k.1 as u64 ^ mix(step ^ salt)))) >> 8) | 1 << 55
}

/// deterministic mutation script confined to one view
fn worker<K: Kind>(mut v: TrieViewMut<'_, K::P, V>, wid: u8, plan: &ThreadPlan, log: &mut Vec<(u64, u8)>) {
    let root = K::dec(v.prefix());
    let mut rng = Rng::from_parts(&[plan.seed, (root.bits >> 64) as u64, root.bits as u64, root.len as u64]);
    let mut step = 0u64;
    macro_rules! tick {
        () => {{
            log.push((SEQ.fetch_add(1, Ordering::Relaxed), wid));
            if plan.yields && rng.chance(1, 3) {
                std::thread::yield_now();
            }
        }};
    }
    for _ in 0..plan.steps_per_worker {
        step += 1;
        match rng.below(8) {
            0 => {
                for (p, x) in v.iter_mut() {
                    x.put(ticket_for(K::dec(p), step, 1));
                    tick!();
                }
            }
            1 => {
                let ks: Vec<EP> = (&v).view().keys().map(|p| K::dec(p)).collect();
                for (i, x) in v.values_mut().enumerate() {
                    x.put(ticket_for(ks[i], step, 2));
                    tick!();
                }
            }
            2 => {
                let p = K::dec(v.prefix());
                if let Some(x) = v.value_mut() {
                    x.put(ticket_for(p, step, 3));
                    tick!();
                }
            }
            3 => {
                let p = K::dec(v.prefix());
                let _ = v.set(V::mk(ticket_for(p, step, 4)));
                tick!();
            }
            4 => {
                let _ = v.remove();
                tick!();
            }
            5 => {
                if let Some((p, x)) = v.prefix_value_mut() {
                    let t = ticket_for(K::dec(p), step, 5);
                    x.put(t);
                    tick!();
                }
            }
            6 => {
                // narrow: left / right / find of one of the own keys
                let ks: Vec<EP> = (&v).view().keys().map(|p| K::dec(p)).collect();
                v = match rng.below(3) {
                    0 => match v.left() {
                        Ok(x) | Err(x) => x,
                    },
                    1 => match v.right() {
                        Ok(x) | Err(x) => x,
                    },
                    _ => {
                        if ks.is_empty() {
                            v
                        } else {
                            let q = ks[rng.below(ks.len())];
                            match v.find(K::mk(q)) {
                                Ok(x) | Err(x) => x,
                            }
                        }
                    }
                };
            }
            _ => {
                // collect-all-then-write
                let mut refs: Vec<(EP, &mut V)> = v.iter_mut().map(|(p, x)| (K::dec(p), x)).collect();
                for (p, x) in refs.iter_mut().rev() {
                    x.put(ticket_for(*p, step, 7));
                    tick!();
                }
            }
        }
    }
    // finally: set operation between the two halves of what is left
    let (l, r) = v.split();
    if let (Some(mut l), Some(r)) = (l, r) {
        for (p, a, b) in l.union_mut(r) {
            let e = K::dec(p);
            if let Some(a) = a {
                a.put(ticket_for(e, 99, 8));
                tick!();
            }
            if let Some(b) = b {
                b.put(ticket_for(e, 99, 9));
                tick!();
            }
        }
    }
}

fn split_rec<'a, K: Kind>(v: TrieViewMut<'a, K::P, V>, depth: u8, out: &mut Vec<TrieViewMut<'a, K::P, V>>) {
    if depth == 0 {
        out.push(v);
        return;
    }
    // `split` consumes the view; the entry at the view's own root is then no longer reachable
    let has = v.has_left() || v.has_right();
    if !has {
        out.push(v);
        return;
    }
    let (l, r) = v.split();
    if let Some(l) = l {
        split_rec::<K>(l, depth - 1, out);
    }
    if let Some(r) = r {
        split_rec::<K>(r, depth - 1, out);
    }
}

// ---------------------------------------------------------------------------------------------
// the WorldApi implementation
// ---------------------------------------------------------------------------------------------

macro_rules! entry_loop {
    ($K:ty, $map:expr, $p:expr, $acts:expr) => {{
        let mut out: Vec<EObs> = Vec::new();
        let mut entry = $map.entry(<$K>::mk($p));
        let mut i = 0usize;
        let acts: &Vec<EAct> = $acts;
        // phase 1: Entry-level handle
        let matched = loop {
            if i >= acts.len() {
                break None;
            }
            let a = &acts[i];
            i += 1;
            match a {
                EAct::Get => out.push(EObs::Val(entry.get().map(|v| v.get()))),
                EAct::Key => out.push(EObs::Key(<$K>::dec(entry.key()))),
                EAct::GetMutWrite(x) => out.push(EObs::Val(entry.get_mut().map(|v| {
                    let o = v.get();
                    v.put(*x);
                    o
                }))),
                EAct::AndModify(x) => {
                    let x = *x;
                    entry = entry.and_modify(|v| v.put(x));
                    out.push(EObs::Skip);
                }
                EAct::AndModifyPanic => {
                    entry = entry.and_modify(|_| panic!("INJECTED:and_modify"));
                    out.push(EObs::Skip);
                }
                EAct::Insert(x) => {
                    out.push(EObs::Val(entry.insert(V::mk(*x)).map(|v| v.get())));
                    break None;
                }
                EAct::OrInsert(x, w) => {
                    let r = entry.or_insert(V::mk(*x));
                    out.push(EObs::Ref(r.get()));
                    if let Some(w) = w {
                        r.put(*w);
                    }
                    break None;
                }
                EAct::OrInsertWith(x, pn, w) => {
                    let (x, pn) = (*x, *pn);
                    let r = entry.or_insert_with(|| {
                        if pn {
                            panic!("INJECTED:or_insert_with")
                        }
                        V::mk(x)
                    });
                    out.push(EObs::Ref(r.get()));
                    if let Some(w) = w {
                        r.put(*w);
                    }
                    break None;
                }
                EAct::OrDefault(w) => {
                    let r = entry.or_default();
                    out.push(EObs::Ref(r.get()));
                    if let Some(w) = w {
                        r.put(*w);
                    }
                    break None;
                }
                EAct::Match => break Some(entry),
                _ => out.push(EObs::Skip),
            }
        };
        // phase 2: variant-level handle
        match matched {
            None => {}
            Some(Entry::Vacant(ve)) => {
                out.push(EObs::Vacant(true));
                let mut ve = Some(ve);
                while i < acts.len() && ve.is_some() {
                    let a = &acts[i];
                    i += 1;
                    match a {
                        EAct::VKey => out.push(EObs::Key(<$K>::dec(ve.as_ref().unwrap().key()))),
                        EAct::VInsert(x, w) => {
                            let r = ve.take().unwrap().insert(V::mk(*x));
                            out.push(EObs::Ref(r.get()));
                            if let Some(w) = w {
                                r.put(*w);
                            }
                        }
                        EAct::VInsertWith(x, pn, w) => {
                            let (x, pn) = (*x, *pn);
                            let r = ve.take().unwrap().insert_with(|| {
                                if pn {
                                    panic!("INJECTED:insert_with")
                                }
                                V::mk(x)
                            });
                            out.push(EObs::Ref(r.get()));
                            if let Some(w) = w {
                                r.put(*w);
                            }
                        }
                        EAct::VDefault(w) => {
                            let r = ve.take().unwrap().default();
                            out.push(EObs::Ref(r.get()));
                            if let Some(w) = w {
                                r.put(*w);
                            }
                        }
                        _ => out.push(EObs::Skip),
                    }
                }
            }
            Some(Entry::Occupied(oe)) => {
                out.push(EObs::Vacant(false));
                let mut oe = Some(oe);
                while i < acts.len() && oe.is_some() {
                    let a = &acts[i];
                    i += 1;
                    match a {
                        EAct::OKey => out.push(EObs::Key(<$K>::dec(oe.as_ref().unwrap().key()))),
                        EAct::OGet => out.push(EObs::Val(Some(oe.as_ref().unwrap().get().get()))),
                        EAct::OGetMutWrite(x) => {
                            let r = oe.as_mut().unwrap().get_mut();
                            out.push(EObs::Val(Some(r.get())));
                            r.put(*x);
                        }
                        EAct::OInsert(x) => out.push(EObs::Val(Some(oe.take().unwrap().insert(V::mk(*x)).get()))),
                        EAct::ORemove => {
                            // written so that it compiles whether `remove` borrows or consumes the handle
                            #[allow(unused_mut)]
                            let mut h = oe.take().unwrap();
                            out.push(EObs::Val(Some(h.remove().get())));
                        }
                        _ => out.push(EObs::Skip),
                    }
                }
            }
        }
        out
    }};
}

impl<K: Kind> World<K> {
    fn map_apply(&mut self, i: usize, op: &Op) -> Ret {
        let cap = budget(self.maps[i].verif_arena().arena_len);
        let map = &mut self.maps[i];
        match op {
            Op::Insert(p, v) => Ret::Val(map.insert(K::mk(*p), V::mk(*v)).map(|x| x.get())),
            Op::Remove(p) => Ret::Val(map.remove(&K::mk(*p)).map(|x| x.get())),
            Op::RemoveKeepTree(p) => Ret::Val(map.remove_keep_tree(&K::mk(*p)).map(|x| x.get())),
            Op::RemoveChildren(p) => {
                map.remove_children(&K::mk(*p));
                Ret::Unit
            }
            Op::Clear => {
                map.clear();
                Ret::Unit
            }
            Op::Retain(pred, panic_at) => {
                self.pred_log.clear();
                let log = &mut self.pred_log;
                let mut n = 0usize;
                map.retain(|p, v| {
                    if Some(n) == *panic_at {
                        panic!("INJECTED:retain predicate call {}", n);
                    }
                    n += 1;
                    let e = K::dec(p);
                    let r = pred.eval(e, v.get());
                    log.push((e, v.get(), r));
                    r
                });
                Ret::Unit
            }
            Op::Entry(p, acts) => Ret::Entry(entry_loop!(K, map, *p, acts)),
            Op::GetMutWrite(p, x) => Ret::Val(map.get_mut(&K::mk(*p)).map(|r| {
                let o = r.get();
                r.put(*x);
                o
            })),
            Op::GetLpmMutWrite(p, x) => Ret::Lpm(map.get_lpm_mut(&K::mk(*p)).map(|(k, r)| {
                let o = (K::dec(k), r.get());
                r.put(*x);
                o
            })),
            Op::MutTravWrite(which, sel, base, pat) => {
                let mut w = match which {
                    MutTrav::IterMut => mut_trav::<K, V, _>(map.iter_mut(), cap, *base, *pat),
                    MutTrav::ChildrenMut => mut_trav::<K, V, _>(map.children_mut(&K::mk(*sel)), cap, *base, *pat),
                    MutTrav::ValuesMut => {
                        let keys: Vec<EP> = map.keys().map(|p| K::dec(p)).collect();
                        let mut n = 0usize;
                        let it = map.values_mut().map(|v| {
                            n += 1;
                            v
                        });
                        // values_mut has no keys: zip with the read-only key order
                        let mut refs: Vec<(EP, &mut V)> = Vec::new();
                        let mut seen = Vec::new();
                        let mut addrs = Vec::new();
                        for r in it {
                            let e = keys.get(refs.len()).copied().unwrap_or(NO_EP);
                            seen.push((e, r.get()));
                            addrs.push(r as *mut V as usize);
                            if *pat == WritePattern::WriteHoldContinue {
                                r.put(*base + 2 * refs.len() as u64);
                            }
                            refs.push((e, r));
                            if refs.len() > cap {
                                panic!("ORACLE:divergence values_mut yields more items than nodes");
                            }
                        }
                        let written = write_refs(&mut refs, *base, *pat);
                        Writes { seen, addrs, addrs_after: vec![], written, val_size: std::mem::size_of::<V>() }
                    }
                };
                w.addrs_after = w.seen.iter().map(|(p, _)| map.get(&K::mk(*p)).map_or(0, |r| r as *const V as usize)).collect();
                Ret::Writes(w)
            }
            Op::ViewMut(prog, act) => {
                let root = mut_root::<K, V, _>(&mut *map, prog);
                let (steps, v) = run_view_mut::<K, V>(root, &prog.nav);
                let mut a = match v {
                    Some(v) => view_act::<K, V>(v, act, cap),
                    None => VActObs::None,
                };
                if let VActObs::Writes(w) = &mut a {
                    w.addrs_after = w.seen.iter().map(|(p, _)| map.get(&K::mk(*p)).map_or(0, |r| r as *const V as usize)).collect();
                }
                Ret::View(steps, a)
            }
            Op::Replace(how) => {
                match how {
                    ReplaceHow::Clone => {
                        let c = map.clone();
                        *map = c;
                    }
                    ReplaceHow::IntoIterCollect => {
                        let old = std::mem::take(map);
                        *map = old.into_iter().collect();
                    }
                    ReplaceHow::CollectShuffled(seed) => {
                        let mut v: Vec<(K::P, V)> = map.iter().map(|(p, x)| (p.clone(), x.clone())).collect();
                        Rng::new(*seed).shuffle(&mut v);
                        *map = PrefixMap::from_iter(v);
                    }
                    ReplaceHow::Serde => {
                        #[cfg(not(feature = "boxval"))]
                        {
                            match serde_roundtrip_map::<K>(map) {
                                Some(m) => *map = m,
                                None => return Ret::Unsupported,
                            }
                        }
                        #[cfg(feature = "boxval")]
                        {
                            return Ret::Unsupported;
                        }
                    }
                    ReplaceHow::FromList(l) => {
                        *map = PrefixMap::from_iter(l.iter().map(|(p, v)| (K::mk(*p), V::mk(*v))));
                    }
                    ReplaceHow::InsertList(l) => {
                        let mut m = PrefixMap::new();
                        for (p, v) in l {
                            m.insert(K::mk(*p), V::mk(*v));
                        }
                        *map = m;
                    }
                    ReplaceHow::EntryList(l) => {
                        let mut m = PrefixMap::new();
                        for (p, v) in l {
                            m.entry(K::mk(*p)).or_insert(V::mk(*v));
                        }
                        *map = m;
                    }
                }
                Ret::Unit
            }
        }
    }

    fn set_apply(&mut self, i: usize, op: &Op) -> Ret {
        let cap = budget(self.sets[i].verif_arena().arena_len);
        let set = &mut self.sets[i];
        match op {
            Op::Insert(p, _) => Ret::Bool(set.insert(K::mk(*p))),
            Op::Remove(p) => Ret::Bool(set.remove(&K::mk(*p))),
            Op::RemoveKeepTree(p) => Ret::Bool(set.remove_keep_tree(&K::mk(*p))),
            Op::RemoveChildren(p) => {
                set.remove_children(&K::mk(*p));
                Ret::Unit
            }
            Op::Clear => {
                set.clear();
                Ret::Unit
            }
            Op::Retain(pred, panic_at) => {
                self.pred_log.clear();
                let log = &mut self.pred_log;
                let mut n = 0usize;
                set.retain(|p| {
                    if Some(n) == *panic_at {
                        panic!("INJECTED:retain predicate call {}", n);
                    }
                    n += 1;
                    let e = K::dec(p);
                    let r = pred.eval(e, 0);
                    log.push((e, 0, r));
                    r
                });
                Ret::Unit
            }
            Op::ViewMut(prog, act) => {
                let root = mut_root::<K, (), _>(&mut *set, prog);
                let (steps, v) = run_view_mut::<K, ()>(root, &prog.nav);
                let a = match v {
                    Some(v) => view_act::<K, ()>(v, act, cap),
                    None => VActObs::None,
                };
                Ret::View(steps, a)
            }
            Op::Replace(how) => {
                match how {
                    ReplaceHow::Clone => {
                        let c = set.clone();
                        *set = c;
                    }
                    ReplaceHow::IntoIterCollect => {
                        let old = std::mem::take(set);
                        *set = old.into_iter().collect();
                    }
                    ReplaceHow::CollectShuffled(seed) => {
                        let mut v: Vec<K::P> = set.iter().cloned().collect();
                        Rng::new(*seed).shuffle(&mut v);
                        *set = PrefixSet::from_iter(v);
                    }
                    ReplaceHow::Serde => match serde_roundtrip_set::<K>(set) {
                        Some(s) => *set = s,
                        None => return Ret::Unsupported,
                    },
                    ReplaceHow::FromList(l) | ReplaceHow::EntryList(l) => {
                        *set = PrefixSet::from_iter(l.iter().map(|(p, _)| K::mk(*p)));
                    }
                    ReplaceHow::InsertList(l) => {
                        let mut s = PrefixSet::new();
                        for (p, _) in l {
                            s.insert(K::mk(*p));
                        }
                        *set = s;
                    }
                }
                Ret::Unit
            }
            _ => Ret::Unsupported,
        }
    }
}

// serde round trips: only for key types JSON can carry as map keys (strings) / in sequences
fn serde_roundtrip_map<K: Kind>(m: &PrefixMap<K::P, Tr<u64>>) -> Option<PrefixMap<K::P, Tr<u64>>> {
    use std::any::Any;
    let any: &dyn Any = m;
    if let Some(m4) = any.downcast_ref::<PrefixMap<ipnet::Ipv4Net, Tr<u64>>>() {
        let s = serde_json::to_string(m4).expect("ORACLE:serde serialize failed");
        let back: PrefixMap<ipnet::Ipv4Net, Tr<u64>> = serde_json::from_str(&s).expect("ORACLE:serde deserialize failed");
        let b: Box<dyn Any> = Box::new(back);
        return Some(*b.downcast::<PrefixMap<K::P, Tr<u64>>>().unwrap());
    }
    if let Some(m6) = any.downcast_ref::<PrefixMap<ipnet::Ipv6Net, Tr<u64>>>() {
        let s = serde_json::to_string(m6).expect("ORACLE:serde serialize failed");
        let back: PrefixMap<ipnet::Ipv6Net, Tr<u64>> = serde_json::from_str(&s).expect("ORACLE:serde deserialize failed");
        let b: Box<dyn Any> = Box::new(back);
        return Some(*b.downcast::<PrefixMap<K::P, Tr<u64>>>().unwrap());
    }
    None
}

fn serde_roundtrip_set<K: Kind>(m: &PrefixSet<K::P>) -> Option<PrefixSet<K::P>> {
    use std::any::Any;
    let any: &dyn Any = m;
    macro_rules! try_ty {
        ($t:ty) => {
            if let Some(x) = any.downcast_ref::<PrefixSet<$t>>() {
                let s = serde_json::to_string(x).expect("ORACLE:serde serialize failed");
                let back: PrefixSet<$t> = serde_json::from_str(&s).expect("ORACLE:serde deserialize failed");
                let b: Box<dyn Any> = Box::new(back);
                return Some(*b.downcast::<PrefixSet<K::P>>().unwrap());
            }
        };
    }
    try_ty!(ipnet::Ipv4Net);
    try_ty!(ipnet::Ipv6Net);
    try_ty!((u8, u8));
    try_ty!((u32, u8));
    try_ty!((u128, u8));
    None
}

fn conv_arena(a: prefix_trie::map::VerifArena) -> Arena {
    Arena { arena_len: a.arena_len, free: a.free, count: a.count, slots: a.slots }
}

impl<K: Kind> WorldApi for World<K> {
    fn kind(&self) -> &'static str {
        K::NAME
    }
    fn width(&self) -> u8 {
        K::W
    }
    fn keeps_host(&self) -> bool {
        K::KEEPS_HOST
    }
    fn serde_other_values(&self, s: Slot) -> Option<String> {
        use std::any::Any;
        fn rt<P>(m: &PrefixMap<P, V>) -> Option<String>
        where
            P: Prefix + Clone + std::fmt::Debug + PartialEq + serde::Serialize + for<'d> serde::Deserialize<'d> + std::hash::Hash + Eq,
        {
            let a: PrefixMap<P, Option<u64>> = m.iter().map(|(p, v)| (p.clone(), if v.get() % 3 == 0 { None } else { Some(v.get()) })).collect();
            let s = serde_json::to_string(&a).expect("ORACLE:serde serialize failed (Option values)");
            let back: PrefixMap<P, Option<u64>> = serde_json::from_str(&s).expect("ORACLE:serde deserialize failed (Option values)");
            if back.len() != a.len() || !back.iter().eq(a.iter()) {
                return Some(format!("a map with Option values ({} entries, {} of them None) comes back from serde_json with {} entries: {:?} -> {:?}", a.len(), a.values().filter(|v| v.is_none()).count(), back.len(), a.iter().collect::<Vec<_>>(), back.iter().collect::<Vec<_>>()));
            }
            let u: PrefixMap<P, ()> = m.iter().map(|(p, _)| (p.clone(), ())).collect();
            let s = serde_json::to_string(&u).expect("ORACLE:serde serialize failed (unit values)");
            let back: PrefixMap<P, ()> = serde_json::from_str(&s).expect("ORACLE:serde deserialize failed (unit values)");
            if back.len() != u.len() || !back.keys().eq(u.keys()) {
                return Some(format!("a map with () values ({} entries) comes back from serde_json with {} entries", u.len(), back.len()));
            }
            None
        }
        let i = match s {
            Slot::Map(i) => i,
            _ => return None,
        };
        let any: &dyn Any = &self.maps[i];
        if let Some(m) = any.downcast_ref::<PrefixMap<ipnet::Ipv4Net, V>>() {
            return rt(m);
        }
        if let Some(m) = any.downcast_ref::<PrefixMap<ipnet::Ipv6Net, V>>() {
            return rt(m);
        }
        None
    }
    fn value_accounting(&self) -> Option<(i64, usize)> {
        if LIVE_WORLDS.load(Ordering::SeqCst) != 1 {
            return None;
        }
        let physical: usize = self.maps.iter().map(|m| m.verif_arena().slots.iter().filter(|s| s.2).count()).sum();
        Some((LIVE_VALUES.load(Ordering::SeqCst), physical))
    }
    fn reset(&mut self, nmaps: usize, nsets: usize) {
        self.maps = (0..nmaps).map(|_| PrefixMap::new()).collect();
        self.sets = (0..nsets).map(|_| PrefixSet::new()).collect();
    }
    fn take_pred_log(&mut self) -> Vec<(EP, u64, bool)> {
        std::mem::take(&mut self.pred_log)
    }
    fn apply(&mut self, s: Slot, op: &Op) -> Ret {
        match s {
            Slot::Map(i) => self.map_apply(i, op),
            Slot::Set(i) => self.set_apply(i, op),
        }
    }

    fn q1(&mut self, s: Slot, w: Q1, q: EP) -> Option<Item> {
        let p = K::mk(q);
        match s {
            Slot::Map(i) => {
                let m = &mut self.maps[i];
                match w {
                    Q1::Get => m.get(&p).map(|v| (NO_EP, v.get())),
                    Q1::GetMut => m.get_mut(&p).map(|v| (NO_EP, v.get())),
                    Q1::GetKeyValue => m.get_key_value(&p).map(|(k, v)| it::<K, V>(k, v)),
                    Q1::ContainsKey => m.contains_key(&p).then_some((NO_EP, NO_VAL)),
                    Q1::EntryGet => m.entry(p).get().map(|v| (NO_EP, v.get())),
                    Q1::EntryKey => {
                        let e = m.entry(p);
                        let occ = matches!(e, Entry::Occupied(_));
                        Some((K::dec(e.key()), occ as u64))
                    }
                    Q1::GetLpm => m.get_lpm(&p).map(|(k, v)| it::<K, V>(k, v)),
                    Q1::GetLpmPrefix => m.get_lpm_prefix(&p).map(|k| (K::dec(k), NO_VAL)),
                    Q1::GetLpmMut => m.get_lpm_mut(&p).map(|(k, v)| (K::dec(k), v.get())),
                    Q1::GetSpm => m.get_spm(&p).map(|(k, v)| it::<K, V>(k, v)),
                    Q1::GetSpmPrefix => m.get_spm_prefix(&p).map(|k| (K::dec(k), NO_VAL)),
                }
            }
            Slot::Set(i) => {
                let m = &mut self.sets[i];
                match w {
                    Q1::ContainsKey => m.contains(&p).then_some((NO_EP, NO_VAL)),
                    Q1::GetKeyValue | Q1::Get => m.get(&p).map(|k| (K::dec(k), 0)),
                    Q1::GetLpm | Q1::GetLpmPrefix => m.get_lpm(&p).map(|k| (K::dec(k), 0)),
                    Q1::GetSpm | Q1::GetSpmPrefix => m.get_spm(&p).map(|k| (K::dec(k), 0)),
                    _ => panic!("HARNESS:q1 {:?} not available on sets", w),
                }
            }
        }
    }

    fn ql(&mut self, s: Slot, w: QL, q: EP) -> ListObs {
        let p = K::mk(q);
        match s {
            Slot::Map(i) => {
                let cap = budget(self.maps[i].verif_arena().arena_len);
                let m = &mut self.maps[i];
                match w {
                    QL::Cover => drain(m.cover(&p), cap, |(k, v)| it::<K, V>(k, v)),
                    QL::CoverKeys => drain(m.cover_keys(&p), cap, |k| (K::dec(k), NO_VAL)),
                    QL::CoverValues => drain(m.cover_values(&p), cap, |v| (NO_EP, v.get())),
                    QL::Children => drain_clone(m.children(&p), cap, Some(1), |(k, v)| it::<K, V>(k, v)),
                    QL::ChildrenMut => drain(m.children_mut(&p), cap, |(k, v)| it::<K, V>(k, v)),
                    QL::IntoChildren => drain_clone(m.clone().into_children(&p), cap, Some(1), |(k, v)| (K::dec(&k), v.get())),
                }
            }
            Slot::Set(i) => {
                let cap = budget(self.sets[i].verif_arena().arena_len);
                let m = &mut self.sets[i];
                match w {
                    QL::Cover | QL::CoverKeys => drain(m.cover(&p), cap, |k| (K::dec(k), 0)),
                    QL::Children => drain_clone(m.children(&p), cap, Some(1), |k| (K::dec(k), 0)),
                    _ => panic!("HARNESS:ql {:?} not available on sets", w),
                }
            }
        }
    }

    fn trav(&mut self, s: Slot, w: Trav, at: Option<usize>) -> ListObs {
        match s {
            Slot::Map(i) => {
                let cap = budget(self.maps[i].verif_arena().arena_len);
                let m = &mut self.maps[i];
                match w {
                    Trav::Iter => drain_clone(m.iter(), cap, at, |(k, v)| it::<K, V>(k, v)),
                    Trav::Keys => drain_clone(m.keys(), cap, at, |k| (K::dec(k), NO_VAL)),
                    Trav::Values => drain_clone(m.values(), cap, at, |v| (NO_EP, v.get())),
                    Trav::IterMut => drain(m.iter_mut(), cap, |(k, v)| it::<K, V>(k, v)),
                    Trav::ValuesMut => drain(m.values_mut(), cap, |v| (NO_EP, v.get())),
                    Trav::IntoIter => drain_clone(m.clone().into_iter(), cap, at, |(k, v)| (K::dec(&k), v.get())),
                    Trav::IntoKeys => drain_clone(m.clone().into_keys(), cap, at, |k| (K::dec(&k), NO_VAL)),
                    Trav::IntoValues => drain_clone(m.clone().into_values(), cap, at, |v| (NO_EP, v.get())),
                    Trav::RefIntoIter => drain_clone((&*m).into_iter(), cap, at, |(k, v)| it::<K, V>(k, v)),
                }
            }
            Slot::Set(i) => {
                let cap = budget(self.sets[i].verif_arena().arena_len);
                let m = &mut self.sets[i];
                match w {
                    Trav::Iter | Trav::Keys => drain_clone(m.iter(), cap, at, |k| (K::dec(k), 0)),
                    Trav::IntoIter | Trav::IntoKeys => drain_clone(m.clone().into_iter(), cap, at, |k| (K::dec(&k), 0)),
                    Trav::RefIntoIter => drain_clone((&*m).into_iter(), cap, at, |k| (K::dec(k), 0)),
                    _ => panic!("HARNESS:trav {:?} not available on sets", w),
                }
            }
        }
    }

    fn len(&self, s: Slot) -> (usize, bool) {
        match s {
            Slot::Map(i) => (self.maps[i].len(), self.maps[i].is_empty()),
            Slot::Set(i) => (self.sets[i].len(), self.sets[i].is_empty()),
        }
    }

    fn view(&mut self, s: Slot, prog: &ViewProg, mutable: bool) -> Vec<StepObs> {
        match (s, mutable) {
            (Slot::Map(i), false) => run_view::<K, V>(ro_root::<K, V, _>(&self.maps[i], prog), &prog.nav).0,
            (Slot::Set(i), false) => run_view::<K, ()>(ro_root::<K, (), _>(&self.sets[i], prog), &prog.nav).0,
            (Slot::Map(i), true) => run_view_mut::<K, V>(mut_root::<K, V, _>(&mut self.maps[i], prog), &prog.nav).0,
            (Slot::Set(i), true) => run_view_mut::<K, ()>(mut_root::<K, (), _>(&mut self.sets[i], prog), &prog.nav).0,
        }
    }

    fn shape(&self, s: Slot) -> Vec<ShapeNode> {
        let mut out = Vec::new();
        match s {
            Slot::Map(i) => {
                let cap = self.maps[i].verif_arena().arena_len + 1;
                walk::<K, V>(self.maps[i].view(), 0, &mut out, cap);
            }
            Slot::Set(i) => {
                let cap = self.sets[i].verif_arena().arena_len + 1;
                walk::<K, ()>(self.sets[i].view(), 0, &mut out, cap);
            }
        }
        out
    }

    fn arena(&self, s: Slot) -> Arena {
        match s {
            Slot::Map(i) => conv_arena(self.maps[i].verif_arena()),
            Slot::Set(i) => conv_arena(self.sets[i].verif_arena()),
        }
    }

    fn pair(&mut self, op: PairOp, a: (Slot, &ViewProg), b: (Slot, &ViewProg), w: Option<(u64, WritePattern)>) -> PairObs {
        let mut o = PairObs { fused: true, val_size: std::mem::size_of::<V>(), ..Default::default() };
        let cap = budget(self.arena(a.0).arena_len + self.arena(b.0).arena_len);
        if !op.is_mut() {
            macro_rules! ro {
                ($ma:expr, $ta:ty, $mb:expr, $tb:ty) => {{
                    let (sa, va) = run_view::<K, $ta>(ro_root::<K, $ta, _>($ma, a.1), &a.1.nav);
                    let (sb, vb) = run_view::<K, $tb>(ro_root::<K, $tb, _>($mb, b.1), &b.1.nav);
                    if let (Some(va), Some(vb)) = (va, vb) {
                        o.a = sa.last().cloned();
                        o.b = sb.last().cloned();
                        let (items, fused, exceeded, pb) = pair_ro::<K, $ta, $tb>(&va, vb, op, cap);
                        o.proto_bad = pb;
                        o.items = items;
                        o.fused = fused;
                        o.exceeded = exceeded;
                    }
                }};
            }
            match (a.0, b.0) {
                (Slot::Map(i), Slot::Map(j)) => ro!(&self.maps[i], V, &self.maps[j], V),
                (Slot::Map(i), Slot::Set(j)) => ro!(&self.maps[i], V, &self.sets[j], ()),
                (Slot::Set(i), Slot::Map(j)) => ro!(&self.sets[i], (), &self.maps[j], V),
                (Slot::Set(i), Slot::Set(j)) => ro!(&self.sets[i], (), &self.sets[j], ()),
            }
            return o;
        }
        // mutable variants: `a` mutable; `b` mutable for union/intersection, read-only for differences
        let b_mut = matches!(op, PairOp::UnionMut | PairOp::IntersectionMut);
        macro_rules! mu {
            ($ma:expr, $ta:ty, $mb:expr, $tb:ty) => {{
                let (sa, va) = run_view_mut::<K, $ta>(mut_root::<K, $ta, _>($ma, a.1), &a.1.nav);
                let (sb, rhs) = if b_mut {
                    let (sb, vb) = run_view_mut::<K, $tb>(mut_root::<K, $tb, _>($mb, b.1), &b.1.nav);
                    (sb, vb.map(RhsMut::Mut))
                } else {
                    let (sb, vb) = run_view::<K, $tb>(ro_root::<K, $tb, _>(&*$mb, b.1), &b.1.nav);
                    (sb, vb.map(RhsMut::Ro))
                };
                if let (Some(mut va), Some(rhs)) = (va, rhs) {
                    o.a = sa.last().cloned();
                    o.b = sb.last().cloned();
                    let m = pair_mut::<K, $ta, $tb>(&mut va, rhs, op, cap, w);
                    o.items = m.items;
                    o.addrs_l = m.addrs_l;
                    o.addrs_r = m.addrs_r;
                    o.written_l = m.written_l;
                    o.written_r = m.written_r;
                }
            }};
        }
        match (a.0, b.0) {
            (Slot::Map(i), Slot::Map(j)) => {
                assert!(i != j, "HARNESS:pair() with the same map on both sides of a *_mut operation");
                let (x, y) = two_mut(&mut self.maps, i, j);
                mu!(x, V, y, V)
            }
            (Slot::Map(i), Slot::Set(j)) => mu!(&mut self.maps[i], V, &mut self.sets[j], ()),
            (Slot::Set(i), Slot::Map(j)) => mu!(&mut self.sets[i], (), &mut self.maps[j], V),
            (Slot::Set(i), Slot::Set(j)) => {
                assert!(i != j, "HARNESS:pair() with the same set on both sides of a *_mut operation");
                let (x, y) = two_mut(&mut self.sets, i, j);
                mu!(x, (), y, ())
            }
        }
        o
    }

    fn self_pair(&mut self, op: PairOp, s: Slot, sp: &SelfPair, w: Option<(u64, WritePattern)>) -> PairObs {
        let mut o = PairObs { fused: true, val_size: std::mem::size_of::<V>(), ..Default::default() };
        let cap = budget(2 * self.arena(s).arena_len);
        let b_mut = matches!(op, PairOp::UnionMut | PairOp::IntersectionMut);
        macro_rules! go {
            ($m:expr, $t:ty) => {{
                let (_, base) = run_view_mut::<K, $t>(mut_root::<K, $t, _>($m, &sp.base), &sp.base.nav);
                if let Some(base) = base {
                    let (l, r) = base.split();
                    if let (Some(l), Some(r)) = (l, r) {
                        let (x, y, nx, ny) = if sp.swap { (r, l, &sp.nav_r, &sp.nav_l) } else { (l, r, &sp.nav_l, &sp.nav_r) };
                        let (sa, va) = run_view_mut::<K, $t>(Some(x), nx);
                        let (sb, vb) = run_view_mut::<K, $t>(Some(y), ny);
                        if let (Some(mut va), Some(vb)) = (va, vb) {
                            o.a = sa.last().cloned();
                            o.b = sb.last().cloned();
                            let m = if op.is_mut() {
                                if b_mut {
                                    pair_mut::<K, $t, $t>(&mut va, RhsMut::Mut(vb), op, cap, w)
                                } else {
                                    pair_mut::<K, $t, $t>(&mut va, RhsMut::Ro((&vb).view()), op, cap, w)
                                }
                            } else {
                                let (items, fused, exceeded, pb) = pair_ro::<K, $t, $t>(&(&va).view(), (&vb).view(), op, cap);
                                o.proto_bad = pb;
                                o.fused = fused;
                                o.exceeded = exceeded;
                                MutOut { items, addrs_l: vec![], addrs_r: vec![], written_l: vec![], written_r: vec![] }
                            };
                            o.items = m.items;
                            o.addrs_l = m.addrs_l;
                            o.addrs_r = m.addrs_r;
                            o.written_l = m.written_l;
                            o.written_r = m.written_r;
                        }
                    }
                }
            }};
        }
        match s {
            Slot::Map(i) => go!(&mut self.maps[i], V),
            Slot::Set(i) => go!(&mut self.sets[i], ()),
        }
        o
    }

    fn eq(&self, a: Slot, b: Slot) -> (bool, bool) {
        match (a, b) {
            (Slot::Map(i), Slot::Map(j)) => (self.maps[i] == self.maps[j], self.maps[i] != self.maps[j]),
            (Slot::Set(i), Slot::Set(j)) => (self.sets[i] == self.sets[j], self.sets[i] != self.sets[j]),
            _ => panic!("HARNESS:eq across slot types"),
        }
    }

    fn copy(&mut self, from: Slot, to: Slot) {
        match (from, to) {
            (Slot::Map(i), Slot::Map(j)) => {
                self.copies += 1;
                if self.copies % 2 == 0 {
                    let c = self.maps[i].clone();
                    self.maps[j] = c;
                } else {
                    // `clone_from` into whatever the destination held before
                    let (src, dst) = two_mut(&mut self.maps, i, j);
                    dst.clone_from(src);
                }
            }
            (Slot::Set(i), Slot::Set(j)) => {
                self.copies += 1;
                if self.copies % 2 == 0 {
                    let c = self.sets[i].clone();
                    self.sets[j] = c;
                } else {
                    let (src, dst) = two_mut(&mut self.sets, i, j);
                    dst.clone_from(src);
                }
            }
            _ => panic!("HARNESS:copy across slot types"),
        }
    }

    fn threads(&mut self, s: Slot, plan: &ThreadPlan) -> ThreadObs {
        let Slot::Map(i) = s else { panic!("HARNESS:threads on set") };
        let mut o = ThreadObs::default();
        let root = mut_root::<K, V, _>(&mut self.maps[i], &plan.base);
        let (_, base) = run_view_mut::<K, V>(root, &plan.base.nav);
        let Some(base) = base else { return o };
        let mut views = Vec::new();
        split_rec::<K>(base, plan.depth, &mut views);
        o.workers = views.len();
        o.roots = views.iter().map(|v| K::dec(v.prefix())).collect();
        let mut logs: Vec<Vec<(u64, u8)>> = Vec::new();
        if plan.threaded {
            let barrier = std::sync::Barrier::new(views.len());
            let barrier = &barrier;
            std::thread::scope(|sc| {
                let hs: Vec<_> = views
                    .into_iter()
                    .enumerate()
                    .map(|(wid, v)| {
                        sc.spawn(move || {
                            // start all workers together so that they really overlap
                            barrier.wait();
                            let mut log = Vec::new();
                            worker::<K>(v, wid as u8, plan, &mut log);
                            log
                        })
                    })
                    .collect();
                for h in hs {
                    match h.join() {
                        Ok(l) => logs.push(l),
                        Err(e) => std::panic::resume_unwind(e),
                    }
                }
            });
        } else {
            for (wid, v) in views.into_iter().enumerate() {
                let mut log = Vec::new();
                worker::<K>(v, wid as u8, plan, &mut log);
                logs.push(log);
            }
        }
        let mut all: Vec<(u64, u8)> = logs.into_iter().flatten().collect();
        all.sort();
        o.writes = all.len();
        o.log = all;
        o
    }

    fn debug_fmt(&mut self, s: Slot, q: EP) -> usize {
        use std::fmt::Write;
        let mut out = String::new();
        // default-constructed iterators are empty and stay empty
        {
            let mut a: prefix_trie::map::Iter<'_, K::P, V> = Default::default();
            let mut b: prefix_trie::map::IterMut<'_, K::P, V> = Default::default();
            for _ in 0..2 {
                assert!(a.next().is_none() && b.next().is_none(), "ORACLE:divergence default iterator yields an item");
            }
        }
        match s {
            Slot::Map(i) => {
                write!(out, "{:?}", self.maps[i]).unwrap();
                if let Some(v) = self.maps[i].view_at(K::mk(q)) {
                    write!(out, "{:?}", v).unwrap();
                }
                if let Some(v) = (&mut self.maps[i]).view_mut_at(K::mk(q)) {
                    write!(out, "{:?}", v).unwrap();
                }
            }
            Slot::Set(i) => {
                write!(out, "{:?}", self.sets[i]).unwrap();
                if let Some(v) = self.sets[i].view_at(K::mk(q)) {
                    write!(out, "{:?}", v).unwrap();
                }
            }
        }
        out.len()
    }

    fn serde_supported(&self, s: Slot) -> bool {
        match s {
            Slot::Map(_) => !cfg!(feature = "boxval") && matches!(K::NAME, "Ipv4Net" | "Ipv6Net"),
            Slot::Set(_) => matches!(K::NAME, "Ipv4Net" | "Ipv6Net" | "u8" | "u32" | "u128"),
        }
    }
}

fn two_mut<T>(v: &mut [T], i: usize, j: usize) -> (&mut T, &mut T) {
    assert!(i != j);
    if i < j {
        let (a, b) = v.split_at_mut(j);
        (&mut a[i], &mut b[0])
    } else {
        let (a, b) = v.split_at_mut(i);
        (&mut b[0], &mut a[j])
    }
}
