//! Model-side semantics of the erased operations: what the abstract map says a call must return,
//! and how it changes the abstract state. Also the oracle for view programs (C11/C12).

use crate::api::*;
use crate::base::*;
use crate::model::Model;

/// how strictly prefixes are compared
#[derive(Clone, Copy, PartialEq, Eq)]
pub enum Cmp {
    /// by (network, length) only
    Key,
    /// bit-for-bit (stored representation)
    Bits,
}

pub fn ep_eq(a: EP, b: EP, c: Cmp) -> bool {
    match c {
        Cmp::Key => a.key() == b.key(),
        Cmp::Bits => a == b,
    }
}

pub fn item_eq(a: Item, b: Item, c: Cmp) -> bool {
    ep_eq(a.0, b.0, c) && a.1 == b.1
}

pub fn items_eq(a: &[Item], b: &[Item], c: Cmp) -> bool {
    a.len() == b.len() && a.iter().zip(b).all(|(x, y)| item_eq(*x, *y, c))
}

/// abstract position of a view: the prefix it reports and the scope that bounds its entries
#[derive(Clone, Copy, Debug)]
pub struct VState {
    pub prefix: EP,
    pub scope: EP,
}

impl VState {
    pub fn entries(&self, m: &Model) -> Vec<Item> {
        m.covered_by(self.scope)
    }
    pub fn at_scope(&self) -> bool {
        self.prefix.key() == self.scope.key()
    }
}

fn side_set(m: &Model, st: &VState, right: bool) -> Vec<Item> {
    let pl = st.prefix.len;
    st.entries(m).into_iter().filter(|(e, _)| e.len > pl && bit(e.bits, pl) == right).collect()
}

pub struct ViewCheck {
    /// violations found: (signature, message)
    pub bad: Vec<(String, String)>,
    /// final abstract state (None if the view was lost / never existed / checking stopped)
    pub fin: Option<VState>,
    /// classification counters
    pub virtual_roots: u64,
    pub nav_below_virtual: u64,
    pub steps_checked: u64,
}

fn shape_has(shape: &[ShapeNode], k: Key) -> bool {
    shape.iter().any(|n| n.prefix.key() == k)
}

/// Check the observations of a view program against the model.
/// `want11`: check the C11 clauses (view_at / left / right / split / has_*);
/// `want12`: check the C12 clauses (find / find_exact / find_lpm from views);
/// `canonical`: the history used only the canonical alphabet (existence converse applies);
/// `cmp`: Bits => additionally require stored representations where an entry is reported (C18).
#[allow(clippy::too_many_arguments)]
pub fn check_view(m: &Model, shape: &[ShapeNode], prog: &ViewProg, steps: &[StepObs], mutable: bool, want11: bool, want12: bool, canonical: bool, cmp: Cmp) -> ViewCheck {
    let mut c = ViewCheck { bad: vec![], fin: None, virtual_roots: 0, nav_below_virtual: 0, steps_checked: 0 };
    let who = if mutable { "TrieViewMut" } else { "TrieView" };
    macro_rules! bad {
        ($sig:expr, $($arg:tt)*) => {{ c.bad.push((format!("{}::{}", who, $sig), format!($($arg)*))); }};
    }
    if steps.is_empty() {
        bad!("no-observation", "view program returned no observation");
        return c;
    }
    // ---- root
    let s0 = &steps[0];
    let mut st = match prog.root {
        None => {
            if !s0.ok {
                if want11 {
                    bad!("view/none", "whole-map view does not exist");
                }
                return c;
            }
            if s0.prefix.len != 0 && want11 {
                bad!("view/prefix", "whole-map view has prefix {:?}", s0.prefix);
            }
            VState { prefix: EP::new(s0.prefix.bits, 0), scope: EP::new(0, 0) }
        }
        Some(q) => {
            let any = m.any_covered_by(q);
            if !s0.ok {
                if any && want11 {
                    bad!("view_at/none-but-entries", "view_at({:?}) is None although {} entries are covered", q, m.covered_by(q).len());
                }
                return c;
            }
            if want11 {
                if s0.prefix.key() != q.key() {
                    bad!("view_at/prefix", "view_at({:?}).prefix() = {:?}", q, s0.prefix);
                }
                if canonical && !any && q.len != 0 {
                    bad!("view_at/exists-without-entries", "view_at({:?}) exists on a canonical trie although no entry is covered", q);
                }
            }
            if !shape_has(shape, q.key()) {
                c.virtual_roots += 1;
            }
            VState { prefix: q, scope: q }
        }
    };
    let mut below_virtual = prog.root.map_or(false, |q| !shape_has(shape, q.key()));
    check_obs(m, &st, s0, want11 || want12, cmp, who, &mut c.bad, "root");
    c.steps_checked += 1;
    // ---- navigation
    for (i, n) in prog.nav.iter().enumerate() {
        let Some(o) = steps.get(i + 1) else {
            break;
        };
        let prev = &steps[i];
        let lost = !o.ok && o.prefix.is_none();
        if below_virtual {
            c.nav_below_virtual += 1;
        }
        // a failed step must hand back the same view
        if !o.ok && !lost {
            let same = o.prefix == prev.prefix && o.value == prev.value && o.entries == prev.entries && o.has_left == prev.has_left && o.has_right == prev.has_right;
            if !same && (want11 || want12) {
                bad!(format!("{}/failed-step-changed-view", nav_name(n)), "after failed {:?} the view differs: {:?} -> {:?}", n, prev.prefix, o.prefix);
            }
        }
        match n {
            Nav::Find(q) | Nav::ViewAt(q) => {
                let want = want12 || (want11 && matches!(n, Nav::ViewAt(_)));
                let inside = st.scope.covers(*q);
                let above = q.covers(st.scope);
                let x: Vec<Item> = if inside {
                    m.covered_by(*q)
                } else if above {
                    st.entries(m)
                } else {
                    vec![]
                };
                let rel = if inside { "q-inside" } else if above { "q-covers-view" } else { "q-disjoint" };
                if !o.ok {
                    if !x.is_empty() && want {
                        bad!(format!("{}/{}/none-but-entries", nav_name(n), rel), "{:?} from view {:?} (scope {:?}) failed although {} entries of the view are covered", n, st.prefix, st.scope, x.len());
                    }
                    if lost {
                        c.fin = None;
                        return c;
                    }
                    continue;
                }
                if want && !items_eq(&o.entries, &x, Cmp::Key) {
                    bad!(format!("{}/{}/entries", nav_name(n), rel), "{:?} from view {:?} (scope {:?}) addresses {:?}, expected {:?}", n, st.prefix, st.scope, keys_of(&o.entries), keys_of(&x));
                }
                if want && canonical && x.is_empty() && prog.root.is_none() && i == 0 && q.len != 0 {
                    bad!(format!("{}/exists-without-entries", nav_name(n)), "{:?} on a canonical trie exists although no entry is covered", n);
                }
                if inside {
                    if want && o.prefix.key() != q.key() {
                        bad!(format!("{}/{}/prefix", nav_name(n), rel), "{:?} from view {:?} reports prefix {:?}", n, st.prefix, o.prefix);
                    }
                    st = VState { prefix: *q, scope: *q };
                    below_virtual = !shape_has(shape, q.key());
                } else if above {
                    // the view keeps addressing the same entries and is positioned at q (C11: "prefix() is q";
                    // C12: "view_at on a view equals find")
                    if want && o.prefix.key() != q.key() {
                        bad!(format!("{}/{}/prefix-is-not-q", nav_name(n), rel), "{:?} from view with scope {:?} reports prefix {:?}", n, st.scope, o.prefix);
                    }
                    if want && !(q.covers(o.prefix) && o.prefix.covers(st.scope)) {
                        bad!(format!("{}/{}/prefix", nav_name(n), rel), "{:?} from view with scope {:?} reports prefix {:?}", n, st.scope, o.prefix);
                    }
                    st = VState { prefix: o.prefix, scope: st.scope };
                } else {
                    // a view outside the scope with no entries: nothing more can be said
                    c.fin = None;
                    return c;
                }
            }
            Nav::FindExact(q) => {
                let should = st.scope.covers(*q) && m.contains(*q);
                if o.ok != should {
                    if want12 {
                        bad!(format!("find_exact/{}", if should { "missed" } else { "spurious" }), "find_exact({:?}) from view {:?} (scope {:?}) ok={} expected {}", q, st.prefix, st.scope, o.ok, should);
                    }
                    c.fin = None;
                    return c;
                }
                if o.ok {
                    if want12 && o.prefix.key() != q.key() {
                        bad!("find_exact/prefix", "find_exact({:?}) positioned at {:?}", q, o.prefix);
                    }
                    st = VState { prefix: *q, scope: *q };
                    below_virtual = false;
                }
            }
            Nav::FindLpm(q) => {
                let target = st.entries(m).into_iter().filter(|(e, _)| e.covers(*q)).max_by_key(|(e, _)| e.len);
                let rel = if st.scope.covers(*q) { "q-inside" } else if q.covers(st.scope) { "q-covers-view" } else { "q-disjoint" };
                match (o.ok, target) {
                    (true, Some((k, _))) => {
                        if want12 && o.prefix.key() != k.key() {
                            bad!(format!("find_lpm/{}/wrong-target", rel), "find_lpm({:?}) from view {:?} positioned at {:?}, expected {:?}", q, st.prefix, o.prefix, k);
                            c.fin = None;
                            return c;
                        }
                        st = VState { prefix: k, scope: k };
                        below_virtual = false;
                    }
                    (false, None) => {}
                    (true, None) => {
                        if want12 {
                            bad!(format!("find_lpm/{}/spurious", rel), "find_lpm({:?}) from view {:?} (scope {:?}) returned {:?} although the view stores no covering prefix", q, st.prefix, st.scope, o.prefix);
                        }
                        c.fin = None;
                        return c;
                    }
                    (false, Some((k, _))) => {
                        if want12 {
                            bad!(format!("find_lpm/{}/missed", rel), "find_lpm({:?}) from view {:?} failed, expected {:?}", q, st.prefix, k);
                        }
                        c.fin = None;
                        return c;
                    }
                }
            }
            Nav::Left | Nav::Right | Nav::SplitL | Nav::SplitR => {
                let right = matches!(n, Nav::Right | Nav::SplitR);
                let side = side_set(m, &st, right);
                let has = if right { prev.has_right } else { prev.has_left };
                let nm = nav_name(n);
                if want11 && has != o.ok {
                    bad!(format!("{}/has-disagrees", nm), "has_{} = {} but {:?} ok = {} at view {:?}", if right { "right" } else { "left" }, has, n, o.ok, st.prefix);
                }
                if !o.ok {
                    if want11 && !side.is_empty() {
                        bad!(format!("{}/none-but-entries", nm), "{:?} of view {:?} (scope {:?}) is missing although {} entries lie on that side", n, st.prefix, st.scope, side.len());
                    }
                    if lost {
                        c.fin = None;
                        return c;
                    }
                    continue;
                }
                if want11 {
                    if !items_eq(&o.entries, &side, Cmp::Key) {
                        bad!(format!("{}/entries", nm), "{:?} of view {:?} (scope {:?}) addresses {:?}, expected {:?}", n, st.prefix, st.scope, keys_of(&o.entries), keys_of(&side));
                    }
                    if canonical && side.is_empty() {
                        bad!(format!("{}/exists-without-entries", nm), "{:?} of view {:?} exists on a canonical trie although that side holds no entry", n, st.prefix);
                    }
                    let p = st.prefix;
                    if !(p.covers(o.prefix) && o.prefix.len > p.len && bit(o.prefix.bits, p.len) == right) {
                        bad!(format!("{}/prefix-not-on-side", nm), "{:?} of view {:?} has prefix {:?}", n, p, o.prefix);
                    }
                }
                let ns = if st.scope.covers(o.prefix) {
                    o.prefix
                } else if o.prefix.covers(st.scope) {
                    st.scope
                } else {
                    if want11 {
                        bad!(format!("{}/escapes-scope", nm), "{:?} of view with scope {:?} has prefix {:?}", n, st.scope, o.prefix);
                    }
                    c.fin = None;
                    return c;
                };
                st = VState { prefix: o.prefix, scope: ns };
                below_virtual = false;
            }
        }
        if o.ok {
            check_obs(m, &st, o, want11 || want12, cmp, who, &mut c.bad, nav_name(n));
            c.steps_checked += 1;
        }
    }
    c.fin = Some(st);
    c
}

fn keys_of(v: &[Item]) -> Vec<EP> {
    v.iter().map(|x| x.0.canon()).collect()
}

pub fn nav_name(n: &Nav) -> &'static str {
    match n {
        Nav::Find(_) => "find",
        Nav::FindExact(_) => "find_exact",
        Nav::FindLpm(_) => "find_lpm",
        Nav::ViewAt(_) => "view_at",
        Nav::Left => "left",
        Nav::Right => "right",
        Nav::SplitL => "split.0",
        Nav::SplitR => "split.1",
    }
}

/// the invariant of every view observation: it addresses exactly the model entries in its scope
fn check_obs(m: &Model, st: &VState, o: &StepObs, want: bool, cmp: Cmp, who: &str, bad: &mut Vec<(String, String)>, via: &str) {
    if !want {
        return;
    }
    if let Some((what, msg)) = &o.self_bad {
        bad.push((format!("{}::{}/self-consistency/{}", who, via, what), msg.clone()));
    }
    if !o.reborrow_same {
        bad.push((format!("{}::{}/reborrow-differs", who, via), format!("(&view_mut).view() at {:?} shows another position (prefix/value/sides/entries) than the mutable view itself", o.prefix)));
    }
    let exp = st.entries(m);
    if !items_eq(&o.entries, &exp, cmp) {
        bad.push((format!("{}::{}/view-entries", who, via), format!("view {:?} (scope {:?}) iterates {:?}, expected {:?}", o.prefix, st.scope, o.entries, exp)));
    }
    let ek: Vec<EP> = exp.iter().map(|x| x.0).collect();
    if o.keys.len() != ek.len() || !o.keys.iter().zip(&ek).all(|(a, b)| ep_eq(*a, *b, cmp)) {
        bad.push((format!("{}::{}/view-keys", who, via), format!("view {:?} keys() = {:?}, expected {:?}", o.prefix, o.keys, ek)));
    }
    let ev: Vec<u64> = exp.iter().map(|x| x.1).collect();
    if o.values != ev {
        bad.push((format!("{}::{}/view-values", who, via), format!("view {:?} values() = {:?}, expected {:?}", o.prefix, o.values, ev)));
    }
    let own = if st.at_scope() { m.get(st.scope) } else { None };
    if o.value != own.map(|x| x.1) {
        bad.push((format!("{}::{}/view-value", who, via), format!("view {:?} (scope {:?}) value() = {:?}, expected {:?}", o.prefix, st.scope, o.value, own)));
    }
    match (o.pv, own) {
        (None, None) => {}
        (Some(a), Some(b)) if item_eq(a, b, cmp) => {}
        (a, b) => bad.push((format!("{}::{}/view-prefix_value", who, via), format!("view {:?} prefix_value() = {:?}, expected {:?}", o.prefix, a, b))),
    }
    if cmp == Cmp::Bits {
        // a view positioned at a stored entry reports the stored representation
        if let Some(b) = own {
            if o.prefix != b.0 {
                bad.push((format!("{}::{}/view-prefix-repr", who, via), format!("view prefix() = {:?}, stored representation {:?}", o.prefix, b.0)));
            }
        }
    }
}

// ---------------------------------------------------------------------------------------------
// expected results of mutators
// ---------------------------------------------------------------------------------------------

/// result of applying an op to the model
pub enum Expect {
    /// the call returns this (the model has been updated)
    Ret(Ret),
    /// the injected callback panics; the model has been updated to the required post-state
    InjectedPanic,
    /// nothing to compare at this level (checked elsewhere)
    Skip,
}

pub fn model_entry(m: &mut Model, p: EP, acts: &[EAct]) -> (Vec<EObs>, bool) {
    let mut out = Vec::new();
    let mut i = 0;
    let mut matched = false;
    while i < acts.len() {
        let occ = m.contains(p);
        let a = &acts[i];
        i += 1;
        match a {
            EAct::Get => out.push(EObs::Val(m.get(p).map(|x| x.1))),
            EAct::Key => out.push(EObs::Key(m.get(p).map_or(p, |x| x.0))),
            EAct::GetMutWrite(x) => out.push(EObs::Val(m.set_value(p, *x))),
            EAct::AndModify(x) => {
                m.set_value(p, *x);
                out.push(EObs::Skip);
            }
            EAct::AndModifyPanic => {
                if occ {
                    return (out, true);
                }
                out.push(EObs::Skip);
            }
            EAct::Insert(x) => {
                out.push(EObs::Val(m.insert(p, *x)));
                return (out, false);
            }
            EAct::OrInsert(x, w) => {
                if !occ {
                    m.insert(p, *x);
                }
                out.push(EObs::Ref(m.get(p).unwrap().1));
                if let Some(w) = w {
                    m.set_value(p, *w);
                }
                return (out, false);
            }
            EAct::OrInsertWith(x, pn, w) => {
                if !occ {
                    if *pn {
                        return (out, true);
                    }
                    m.insert(p, *x);
                }
                out.push(EObs::Ref(m.get(p).unwrap().1));
                if let Some(w) = w {
                    m.set_value(p, *w);
                }
                return (out, false);
            }
            EAct::OrDefault(w) => {
                if !occ {
                    m.insert(p, 0);
                }
                out.push(EObs::Ref(m.get(p).unwrap().1));
                if let Some(w) = w {
                    m.set_value(p, *w);
                }
                return (out, false);
            }
            EAct::Match => {
                matched = true;
                break;
            }
            _ => out.push(EObs::Skip),
        }
    }
    if !matched {
        return (out, false);
    }
    let occ = m.contains(p);
    out.push(EObs::Vacant(!occ));
    while i < acts.len() {
        let a = &acts[i];
        i += 1;
        if !occ {
            match a {
                EAct::VKey => out.push(EObs::Key(p)),
                EAct::VInsert(x, w) => {
                    m.insert(p, *x);
                    out.push(EObs::Ref(*x));
                    if let Some(w) = w {
                        m.set_value(p, *w);
                    }
                    return (out, false);
                }
                EAct::VInsertWith(x, pn, w) => {
                    if *pn {
                        return (out, true);
                    }
                    m.insert(p, *x);
                    out.push(EObs::Ref(*x));
                    if let Some(w) = w {
                        m.set_value(p, *w);
                    }
                    return (out, false);
                }
                EAct::VDefault(w) => {
                    m.insert(p, 0);
                    out.push(EObs::Ref(0));
                    if let Some(w) = w {
                        m.set_value(p, *w);
                    }
                    return (out, false);
                }
                _ => out.push(EObs::Skip),
            }
        } else {
            match a {
                EAct::OKey => out.push(EObs::Key(m.get(p).unwrap().0)),
                EAct::OGet => out.push(EObs::Val(Some(m.get(p).unwrap().1))),
                EAct::OGetMutWrite(x) => out.push(EObs::Val(m.set_value(p, *x))),
                EAct::OInsert(x) => {
                    out.push(EObs::Val(m.insert(p, *x)));
                    return (out, false);
                }
                EAct::ORemove => {
                    out.push(EObs::Val(m.remove(p)));
                    return (out, false);
                }
                _ => out.push(EObs::Skip),
            }
        }
    }
    (out, false)
}

/// does this op (as applied to this pre-state) keep the history inside the canonical alphabet?
pub fn op_is_canonical(op: &Op, pre: &Model) -> Option<bool> {
    // Some(true): canonical op; Some(false): leaves the canonical alphabet; None: resets to canonical
    match op {
        Op::Insert(..) | Op::Remove(_) | Op::Retain(..) | Op::GetMutWrite(..) | Op::GetLpmMutWrite(..) | Op::MutTravWrite(..) => Some(true),
        Op::Clear => None,
        Op::RemoveKeepTree(p) => Some(!pre.contains(*p)),
        Op::RemoveChildren(p) => {
            if p.len == 0 {
                None
            } else {
                Some(!pre.any_covered_by(*p))
            }
        }
        Op::Entry(_, acts) => Some(!acts.iter().any(|a| matches!(a, EAct::ORemove))),
        Op::ViewMut(_, act) => Some(!matches!(act, VAct::Set(_) | VAct::Remove)),
        Op::Replace(how) => match how {
            ReplaceHow::Clone => Some(true),
            _ => None,
        },
    }
}
